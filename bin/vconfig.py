"""Per-property configuration of the checks (parts, budgets, evidence text)."""

COMMON_ASSUMPTIONS = [
    "search is sampled, not exhaustive: absence of a violation is not a proof",
    "generators stay inside the documented JSON fragment; data strings starting with '?' are excluded outside C13",
]

PROPS = {
    "C01": {
        "level": "exploration",
        "rule": "cases are operation histories (<= 25 ops: AddRule new/overwriting with generated `when` patterns incl. empty "
                "containers, arrays with variables, property variables, reserved-prefix strings; RemRule; AddFact under a rule id; "
                "EnableRule incl. inherited ids; Clear; reload; the same in 0-2 ancestor locations) interleaved with events that "
                "are mostly instantiations of stored or formerly stored `when` patterns; each history runs on indexed and linear "
                "state. Non-trivial = the history contains an event after an overwrite/removal/clear, or an event for which the "
                "model dispatches >= 1 rule while >= 1 stored rule does not match. Distinct = distinct canonical JSON.",
        "assumptions": COMMON_ASSUMPTIONS + [
            "an event or `when` with a heterogeneous array is a documented refusal of the pattern index ('not sortable'); the error is accepted and counted",
            "rule ids are qualified per location (a duplicate id between a location and an ancestor is a documented error)",
            "oracle for bindings is strict <= got <= lenient; arrays inside bindings compare as sets",
        ],
        "parts": [
            {"name": "dispatch", "mode": "plain", "test": "TestC01",
             "quick": {"checks": 2500, "shards": 4},
             "thorough": {"checks": 40000, "shards": 16}},
        ],
    },
    "C02": {
        "level": "exploration",
        "rule": "cases are operation histories (<= 30 ops) of AddFact (ids from {'', f1..f5}: overwrites and re-adds are the norm; "
                "facts incl. numbers, booleans, null, over-long strings, `x!` keys, `rule`-keyed scalars, property facts), RemFact, "
                "GetFact, SearchFacts (patterns derived from stored or formerly stored facts, with variables and property "
                "variables) and reload, run on indexed and linear state and compared with a brute-force model after every step. "
                "Non-trivial = a search issued after an overwrite or removal whose expected result is non-empty and not the whole "
                "store. Distinct = distinct canonical JSON.",
        "assumptions": COMMON_ASSUMPTIONS + [
            "indexed search of a pattern without any indexable term is a documented refusal ('No terms given.')",
            "oracle for bindings is strict <= got <= lenient; an id that matches only under the lenient array reading may or may not be returned",
        ],
        "parts": [
            {"name": "search", "mode": "plain", "test": "TestC02",
             "quick": {"checks": 3000, "shards": 4},
             "thorough": {"checks": 40000, "shards": 16}},
        ],
    },
    "C06": {
        "level": "fault_enumeration",
        "rule": "cases are (state in {indexed, linear}, storage in {memory, bolt file}, operation history of 2-14 ops from AddFact (ttl, "
                "absolute/RFC3339 expires, deleteWith, generated or given ids), AddRule (ttl/expires/deleteWith), RemFact, RemRule, "
                "EnableRule, SetParents, SetProp, Clear, reload; bolt also a 40-fact bulk write that grows the file). Pass A runs the "
                "history and after every op compares model, live location and a location rebuilt from storage alone (ids, values incl. "
                "expires, 7 searches, rule list, 2 probe events, parents, enabled flags). Pass B re-runs the history with the process "
                "dying at the k-th storage write and checks that after reload every id is in its state before or after the "
                "interrupted op. Pass C makes the j-th storage call fail and requires the enclosing operation (or NewLocation) to report "
                "an error. quick: 3 drawn k and 3 drawn j per history; thorough: every k in [1,W] and every j in [1,N]. Non-trivial = "
                "history has >= 1 cascade or overwrite and >= 3 storage writes. Distinct = distinct canonical JSON.",
        "assumptions": COMMON_ASSUMPTIONS + [
            "crash points are at storage-call granularity (a torn write inside Bolt is Bolt's business)",
            "after an injected storage error only 'the operation reports an error' is required",
            "DynamoDB and Cassandra back ends are unreachable offline and not exercised",
        ],
        "parts": [
            {"name": "durability", "mode": "plain", "test": "TestC06",
             "quick": {"checks": 400, "shards": 4},
             "thorough": {"checks": 2500, "shards": 16}},
        ],
    },
    "C07": {
        "level": "exploration",
        "rule": "cases are timed histories (2-14 ops) on the Go runtime's virtual clock (faketime build, so every instant is exact and "
                "repeatable): writes of facts i1/i2 and rule r1 with expiry encoding in {expires number, expires RFC3339 (facts), ttl "
                "duration string incl. sub-second, ttl number, none} and deltas incl. 0/negative (already expired), a dependent fact d1 "
                "with deleteWith, get/search/list/event/reload observations, sleeps to E-1s, E-1ns, E, E+1ns, E+1s of a chosen item, "
                "short sleeps, rarely +40 days; start on or off a second boundary; indexed or linear. Oracle: visible iff floor(now) < E; "
                "expires value constant across reads and reloads; observed expired items (and dependents stored before E) purged from "
                "storage; no-expiry items survive; already-expired writes rejected without effect. Non-trivial = an observation within "
                "1 s of E, or a reload between write and E. Distinct = distinct canonical JSON.",
        "assumptions": COMMON_ASSUMPTIONS + [
            "virtual time (runtime faketime): instants are exact; CPU time is invisible to the clock",
            "an expired item may be purged by the implementation at any instant from E on; dependents added after E are unspecified",
            "for rules only numeric `expires` and ttl are claimed (the rule schema documents expires as UNIX seconds)",
            "multi-year idle periods are represented by +40 days (rapid and the testing package bound total virtual run time)",
        ],
        "parts": [
            {"name": "expiry", "mode": "faketime", "test": "TestC07",
             "quick": {"checks": 1500, "shards": 4},
             "thorough": {"checks": 20000, "shards": 16}},
        ],
    },
    "C08": {
        "level": "exploration",
        "rule": "cases are dependency graphs over ids a..f built from AddFact/AddRule with deleteWith lists (chains, fans, cycles, "
                "self loops, dangling target 'z'), EnableRule(false) and SetProp property facts, followed by RemFact/RemRule in a "
                "drawn order mixed with reloads and late additions; run on indexed and linear state; after every step every id's "
                "presence/value, the rule list and the storage key set are compared with the model's transitive closure. "
                "Non-trivial = a deletion of a present id removes >= 2 ids while >= 1 id survives. Distinct = distinct canonical JSON.",
        "assumptions": COMMON_ASSUMPTIONS + [
            "removing an id that is absent leaves ids naming it in deleteWith unspecified (the manual does not say whether a dangling target cascades); those ids are skipped until redefined",
            "expiry-driven cascades use C07's virtual-time histories (part expiry-cascade), read strictly: an item deleted by expiry takes its dependents with it whether or not anybody has looked before the id is written again",
        ],
        "parts": [
            {"name": "cascade", "mode": "plain", "test": "TestC08",
             "quick": {"checks": 2500, "shards": 4},
             "thorough": {"checks": 40000, "shards": 16}},
            {"name": "expiry-cascade", "mode": "faketime", "test": "TestC08Expiry",
             "quick": {"checks": 1500, "shards": 4},
             "thorough": {"checks": 20000, "shards": 16}},
        ],
    },
    "C10": {
        "level": "exploration",
        "rule": "cases are histories (<= 25 ops + follow-up events) over rule ids r1..r3 (and pr1..pr3 in a parent): add, overwrite "
                "(other when, unique action tag per add), remove, disable, enable, reload, location disable/enable, child-side "
                "disable of inherited rules, events; indexed and linear; after every step dispatch, action values, RuleEnabled, "
                "ListRules and the all-operations-fail behaviour of a disabled location are compared with the model. "
                "Non-trivial = the history contains disable->event, overwrite->event and reload->event. Distinct = distinct canonical JSON.",
        "assumptions": COMMON_ASSUMPTIONS + [
            "unspecified (skipped): disabled flag after an in-place overwrite; RuleEnabled of an id that does not exist; a child's flag for an inherited rule after the parent removed the rule",
        ],
        "parts": [
            {"name": "lifecycle", "mode": "plain", "test": "TestC10",
             "quick": {"checks": 2000, "shards": 4},
             "thorough": {"checks": 25000, "shards": 16}},
        ],
    },
    "C03": {
        "level": "exploration",
        "rule": "cases are (fact set 0-6 facts with scalar arrays only, optional parent location with 0-3 facts, query tree) with the "
                "tree drawn from the grammar pattern | and[0..3] | or[0..3](shortCircuit?) | not | {} | code (templates whose value "
                "the generator knows: constants true/false/null/undefined/0/''/'s'/objects/arrays, === comparisons of definitely-bound "
                "variables, object literals binding constants or bound variables), depth <= 3, patterns mostly derived from the "
                "facts; evaluated by Location.Query or as a rule condition with 1-3 incoming bindings (array variable in `when`); a "
                "1-in-20 class of malformed trees must be rejected. Compared as multisets with a reference evaluator, on indexed and "
                "linear state. Non-trivial = depth >= 2 with or/not, or >= 2 incoming bindings, or an empty and/or. Distinct = "
                "distinct canonical JSON.",
        "assumptions": COMMON_ASSUMPTIONS + [
            "where the strict and lenient array readings give different multisets the case is counted but not judged",
            "an indexed search of a (bound) pattern without indexable terms is a documented refusal and is accepted",
            "code terms come from a template family with generator-known values; a variable is referenced only if bound on every path",
        ],
        "parts": [
            {"name": "query", "mode": "plain", "test": "TestC03",
             "quick": {"checks": 4000, "shards": 4},
             "thorough": {"checks": 50000, "shards": 16}},
        ],
    },
    "C04": {
        "level": "exploration",
        "rule": "cases are (0-4 rules with 1-3 actions each from {value, Env.out+value, throwing, non-compiling}, `when` with or "
                "without an array variable (1-3 match bindings), condition from {none, pattern, join, or, never-matching} over "
                "generated f/g facts (0-3 bindings), serialActions on 1/4) and an event; the work tree leaves, dispositions, values "
                "(action returns ruleId/location/event/x/y/z as it sees them) and the Env.out channel are compared with the expected "
                "executions. Non-trivial = >= 4 expected executions spread over >= 2 of the dimensions rules/when-bindings/"
                "condition-bindings/actions. Distinct = distinct canonical JSON. A second part repeats the search under the race detector.",
        "assumptions": COMMON_ASSUMPTIONS + [
            "with a failing action in a serialActions rule only 'subset, no duplicates' is required (the statement allows the rest to be skipped)",
        ],
        "parts": [
            {"name": "actions", "mode": "plain", "test": "TestC04",
             "quick": {"checks": 1500, "shards": 4},
             "thorough": {"checks": 20000, "shards": 16}},
            {"name": "actions-race", "mode": "race", "test": "TestC04",
             "quick": {"checks": 150, "shards": 4},
             "thorough": {"checks": 1500, "shards": 16}},
        ],
    },
    "C05": {
        "level": "exploration",
        "rule": "cases are (pattern, data, initial bindings, typing mask) drawn by rapid: independent pairs, data "
                "instantiated from a pattern, or a pattern derived from data (keys dropped, subtrees replaced by "
                "re-used variables, constants perturbed). Non-trivial = the pattern has a variable and an array or "
                "nesting depth >= 2, and the pair matches or was derived (near-match). Distinct = distinct canonical "
                "JSON of the case.",
        "assumptions": COMMON_ASSUMPTIONS + [
            "oracle is strict <= got <= lenient where the documentation leaves the array reading open",
            "typed variants cover core.Map, []string (also empty typed slices) and int / int64 for integral numbers at any position (also inside arrays)",
        ],
        "parts": [
            {"name": "match", "mode": "plain", "test": "TestC05",
             "quick": {"checks": 60000, "shards": 4},
             "thorough": {"checks": 600000, "shards": 16}},
        ],
    },
}

PROPS["C20"] = {
    "level": "exploration",
    "rule": "three parts. capacity: histories (3-20 ops) of AddFact/AddRule (given and generated ids)/RemFact/action-issued Env.AddFact/"
            "reload with MaxFacts in 1..6 on indexed or linear state; after every op size <= max, size grows by <= 1, an add at capacity "
            "is refused and a refused add leaves storage and an observation vector unchanged; non-trivial = the history hits capacity and "
            "later frees a slot. breaker (virtual clock): limit 1..5, interval in {100ms,1s,10s}, 2-130 arrivals with gaps drawn around "
            "tick (interval/20) and interval boundaries, steady polling faster/slower than a tick, bursts of 2..16 goroutines at one "
            "instant; oracle: every window (t-interval, t] ending at an admitted call holds <= limit admitted calls, and a call arriving "
            ">= interval + one tick after the last admission is admitted; non-trivial = the window was filled and later recovered. "
            "throttle (virtual clock): 1-12 submissions with generated start gaps and work durations, attempts 1..5, pendingLimit 0..4; "
            "each function runs <= once, Submit's result is consistent (ran => its error, else Exhausted/Overflow), Pending() <= "
            "pendingLimit+1 at every sample and 0 at the end; non-trivial = some ran and some were refused. Distinct = distinct canonical JSON.",
    "assumptions": COMMON_ASSUMPTIONS + [
        "breaker resolution is one tick (interval/20): recovery is required interval + one tick after the last admission",
        "property facts written by EnableRule/SetProp are not 'public add operations' and are left out of the capacity histories",
        "the HTTP path of the breaker (status 430) is not exercised here",
        "concurrent bursts run at one virtual instant; real schedules are sampled, not enumerated",
    ],
    "parts": [
        {"name": "capacity", "mode": "plain", "test": "TestC20Capacity",
         "quick": {"checks": 1500, "shards": 2}, "thorough": {"checks": 20000, "shards": 8}},
        {"name": "capacity-concurrent", "mode": "plain", "test": "TestC20CapacityConcurrent",
         "quick": {"checks": 1000, "shards": 4}, "thorough": {"checks": 30000, "shards": 8}},
        {"name": "http-breaker", "mode": "plain", "test": "TestC20HTTPBreaker",
         "quick": {"checks": 1500, "shards": 2}, "thorough": {"checks": 30000, "shards": 8}},
        {"name": "breaker", "mode": "faketime", "test": "TestC20Breaker",
         "quick": {"checks": 3000, "shards": 2}, "thorough": {"checks": 50000, "shards": 8}},
        {"name": "throttle", "mode": "faketime", "test": "TestC20Throttle",
         "quick": {"checks": 3000, "shards": 2}, "thorough": {"checks": 50000, "shards": 8}},
    ],
}

PROPS["C16"] = {
    "level": "exploration",
    "rule": "two parts, both on the virtual clock. in-memory cron.Cron: sequences (2-16 ops) of Add (ids j1..j4; '+d', '!t', 7-field "
            "recurring expressions; re-adding an id replaces it; job functions take a generated virtual duration), Rem, Suspend, Resume, "
            "Pause and sleeps, started at a fixed phase; oracle: no fire before the due time / next occurrence, one-shot at most once and "
            "exactly once within 1 s of unsuspended time after due, recurring instantaneous jobs once per occurrence, no fire for an "
            "occurrence after removal/replacement, timeline sorted with one entry per id after every op. crolt (package main, checked "
            "in-package through a build overlay): Add/Delete/DeleteAccount/work pass/sleep/reopen sequences over 3 accounts x 3 ids "
            "with duration and recurring schedules, MaxJitter 0, TTL 2 s; a firing is a job's time-index id changing during a work "
            "pass; oracle: fired/evicted only at or after the time in its index key, one-shot exactly once then evicted after the "
            "TTL, deleted jobs never fire, job table == live jobs, job table and time index agree key for key after every operation "
            "and every reopen. Non-trivial = a removal of a not-yet-due job with other jobs pending, a replacement, or a reopen with "
            ">= 2 pending jobs. Distinct = distinct canonical JSON.",
    "assumptions": COMMON_ASSUMPTIONS + [
        "virtual time (Go faketime); crolt's HTTP request is made to fail immediately (empty URL) so no network I/O is in flight",
        "the harness, not WorkLoops, calls the firing pass of crolt; crolt's absolute-time schedules are not exercised (its parser rejects them)",
    ],
    "parts": [
        {"name": "memcron", "mode": "faketime", "test": "TestC16Cron",
         "quick": {"checks": 800, "shards": 4}, "thorough": {"checks": 15000, "shards": 16}},
        {"name": "crolt", "mode": "crolt", "test": "TestC16Crolt",
         "quick": {"checks": 500, "shards": 4}, "thorough": {"checks": 6000, "shards": 16}},
    ],
}

PROPS["C15"] = {
    "level": "exploration",
    "rule": "two parts. recording cron (real time is irrelevant; the harness delivers ticks): histories (2-18 ops) over 2-3 locations "
            "sharing rule ids s1/s2 of adding scheduled rules ('+d', '!t', 7-field expressions, optionally deleteWith an anchor fact), "
            "overwriting them with ordinary rules or plain facts, RemRule, removing the anchor (cascade), Clear, reload (persistent "
            "cron: one location; ephemeral cron: the jobs are lost and every location is reloaded) and tick(loc,id); indexed or linear. "
            "After every op the cron's registrations must equal the model's live scheduled rules; a tick runs exactly the live "
            "scheduled rule of that location (unique action value per add), a one-shot is deleted after it ran, anything else "
            "produces no value. sys+InternalCron (virtual clock): the real in-memory cron wired into one sys.System; scheduled rules "
            "('+d' and */2 recurring) in locations A/B sharing ids, RemRule, overwrite, Clear, sleeps; each firing is recorded by a Go "
            "function exposed to the action; oracle: runs only in its own location, never if removed before due, one-shot at most once "
            "and deleted afterwards, runs if it still exists a second after it was due. Non-trivial = the same id scheduled in two "
            "locations, or a tick for a formerly scheduled rule. Distinct = distinct canonical JSON.",
    "assumptions": COMMON_ASSUMPTIONS + [
        "harness operations are kept off the instants at which ticks are due (an operation concurrent with a tick is C12's business)",
        "a scheduled rule that also expires is covered only through the known finding (expiry bypasses the remove hook like a cascade)",
    ],
    "parts": [
        {"name": "reccron", "mode": "plain", "test": "TestC15",
         "quick": {"checks": 1500, "shards": 4}, "thorough": {"checks": 15000, "shards": 16}},
        {"name": "sys-internalcron", "mode": "faketime", "test": "TestC15Sys",
         "quick": {"checks": 400, "shards": 4}, "thorough": {"checks": 5000, "shards": 16}},
        {"name": "crolt-glue", "mode": "crolt", "test": "TestC15Crolt",
         "quick": {"checks": 400, "shards": 4}, "thorough": {"checks": 6000, "shards": 16}},
    ],
}

PROPS["C13"] = {
    "level": "exploration",
    "rule": "cases are 1-3 hostile steps on one location (indexed or linear; as a library through core.Location or through sys.System "
            "with JSON strings): a JSON document used as fact, rule, search pattern, rule-search event, query, event or a hostile id "
            "(empty, '!'-prefixed, variable-looking, 1100 bytes). Documents are drawn from a grammar biased towards reserved keys "
            "(rule, when, pattern, schedule, expires, ttl, deleteWith, id, _id, !props, actions, condition, policies, code, and/or/not, "
            "trigger!, evaluate!, ...) carrying values of every JSON type, variable-looking strings and keys, empty containers, "
            "heterogeneous arrays, 1e308, nesting up to depth 200, or from a well-formed skeleton with one corrupted field; follow-up "
            "steps reuse a tiny alphabet so that a stored hostile fact meets a pattern with repeated variables. Oracle: every call "
            "returns within 8 s without panic (child death / stack overflow is caught through the journal); accepted facts and rules "
            "can be removed again; then ten canary operations (add/get/search/list/rule search/event/query/remove) give exactly the "
            "transcript of a fresh twin location. Non-trivial = a reserved key is used or nesting is deeper than 8. Distinct = "
            "distinct canonical JSON.",
    "assumptions": COMMON_ASSUMPTIONS + [
        "facts and events are generated without strings that start with '?' (known finding matcher-recursion-on-variable-data kills the process); patterns, queries and rules do contain them",
        "scripts that do not terminate are C14's business and are not generated here",
        "steps that legitimately change the location for later traffic (property facts such as !enabled/!writeKey, overwriting the canary, generated ids) are run for crash/hang only and not compared with the twin",
        "the HTTP layer's own parsing of empty bodies and parameters is exercised by C18's check",
    ],
    "parts": [
        {"name": "hostile", "mode": "plain", "test": "TestC13",
         "quick": {"checks": 4000, "shards": 4, "timeout": 900}, "thorough": {"checks": 60000, "shards": 16}},
    ],
}

PROPS["C09"] = {
    "level": "exploration",
    "rule": "cases are histories (3-22 ops) over 3-5 locations sharing one storage, served either by a core.SimpleLocationProvider "
            "(half of the cases) or by a sys.System that is itself the provider resolving the parents, with location TTL forever or never "
            "(with TTL never every request works on a location freshly loaded from storage; a 1 ms TTL is not generated: the harness "
            "works on unpinned instances, see DESIGN.md A.0): SetParents (in 3/4 "
            "of the cases only towards 'later' locations, i.e. forests and multi-parent DAGs; in 1/4 arbitrary targets incl. self, 2- "
            "and 3-cycles), facts and rules with location-qualified ids, a deliberately unqualified fact id 'shared', RemFact, RemRule, "
            "and EnableRule of own and foreign (inherited) rule ids; indexed or linear. After every operation the observation vector "
            "of every location (2 searches with and without inheritance, rule list with and without, 2 events) is compared with the "
            "model whose ancestor closure is computed at observation time; for a location whose parent chain loops the inherited "
            "search and the event dispatch must report an error. Non-trivial = an ancestor chain of depth >= 2, a changed parent "
            "list followed by inherited observations, or a loop. Distinct = distinct canonical JSON.",
    "assumptions": COMMON_ASSUMPTIONS + [
        "whether the facts and rules of a location reached through two different parents (a diamond) count once or twice is unspecified: an observation is skipped only if such a location contributes to it (has a matching fact or rule, or unspecified ids); otherwise the location is counted once and the comparison is made",
        "in the sys.System mode the operations are issued on the *core.Location that System.GetLocation hands out (the System is the provider and cache); the System's own request wrappers are C17's and C18's subject",
    ],
    "parts": [
        {"name": "parents", "mode": "plain", "test": "TestC09",
         "quick": {"checks": 280, "shards": 6}, "thorough": {"checks": 12000, "shards": 16}},
    ],
}

PROPS["C19"] = {
    "level": "exploration",
    "rule": "cases are histories (4-24 ops) on twin locations P (protected) and U (never protected): protection changes (set/remove "
            "write key, set/remove read key, read-only on/off, disabled on/off) interleaved with operations from the Location API "
            "(AddFact, RemFact, AddRule, RemRule, EnableRule, SetParents, Clear, GetFact, GetRule, SearchFacts, SearchRules, ListRules, "
            "Query, StateSize, GetParents, RuleEnabled), RunJavascript calling Env.AddFact / Env.Search, and events whose actions call Env.AddFact, "
            "Env.RemFact, Env.AddRule, Env.Search, each under a caller context from {no key, wrong keys, right keys, read key only, "
            "write key only}; indexed or linear. Unauthorised call on P: must fail (an event may be processed as long as no action "
            "succeeds), must return no data, storage snapshot unchanged. Authorised call: result and error status equal U's. "
            "Non-trivial = a refused mutating call on a location holding data, or an action-issued write refused while the event "
            "itself was readable. Distinct = distinct canonical JSON. Labels 'cell:<op>' count the operation x protection x context cells reached.",
    "assumptions": COMMON_ASSUMPTIONS + [
        "whether GetParents needs the read key is not specified (the statement names the parent set only for writes): only enablement is required of it",
        "SetProp/RemProp are the privileged administration path by which the harness itself sets keys; they are not part of the claim",
        "a Clear removes the keys and the enabled flag (they are facts of the location); the harness follows that",
    ],
    "parts": [
        {"name": "access", "mode": "plain", "test": "TestC19",
         "quick": {"checks": 2500, "shards": 4}, "thorough": {"checks": 25000, "shards": 16}},
    ],
}

PROPS["C14"] = {
    "level": "exploration",
    "rule": "cases are (script family, template variant, placement, timeout source, limit, bindings): families value (6 templates whose "
            "value the generator computes from the bindings x, s), throwing (3), syntactically invalid (3), non-terminating (4: "
            "while(true), for(;;), unbounded recursion, counting loop), slow-but-finishing (Env.sleep for a quarter of the limit, a "
            "2000-iteration loop); placement in {Location.RunJavascript, rule action, rule condition}; timeout from the location "
            "control, the system default or disabled (terminating families only); limit in {20,50,100,200} ms. Real time. Oracle: a "
            "non-terminating script returns control no earlier than the limit and no later than limit + 5 s (hard bound), as an "
            "error / non-complete node, never as success, and a condition that fails runs no action; throwing and invalid scripts "
            "are errors on their node; value and slow scripts give exactly the expected value with a complete disposition (a "
            "condition keeps the binding iff the value is truthy). Non-trivial = every case except throw/syntax. Distinct = distinct "
            "canonical JSON (the space is small: a few thousand distinct cases).",
    "assumptions": COMMON_ASSUMPTIONS + [
        "real time: 'not before the limit' is exact; 'not later' uses a 5 s hard bound (a stop later than limit + 1 s is only counted)",
        "Env.sleep is a Go call that the interpreter cannot interrupt; scripts sleep for less than the limit only",
    ],
    "parts": [
        {"name": "scripts", "mode": "plain", "test": "TestC14",
         "quick": {"checks": 120, "shards": 6, "timeout": 600}, "thorough": {"checks": 1500, "shards": 16}},
    ],
}

PROPS["C18"] = {
    "level": "exploration",
    "rule": "cases are scenarios of 1-6 logical requests from the /api/loc/* family (facts add/get/rem/search/take/replace/query, "
            "rules add/rem/list/disable/enable/enabled, events ingest, admin size/clear/create, parents get/set, an unknown URI, a "
            "POST without body) with generated arguments (ids and values containing quotes, backslashes, &, =, %, +, spaces, "
            "non-ASCII, slashes, tabs and newlines) and a 1-in-4 error class per request (location missing, structured parameter "
            "ill-typed, required parameter missing, structured parameter empty). The scenario is run once as direct sys.System "
            "calls and once per rendering -- query string, form body, JSON body, /api/json envelope, YAML body, one "
            "/api/sys/util/batch -- each on a fresh engine through HTTPService.ServeHTTP, with prefix '/api', none, or a version "
            "prefix. Oracle: status 200 iff the direct call succeeded (else 400 / an error entry in the batch), the body parses as "
            "JSON and, normalised (generated ids, ordering), equals the direct result. Non-trivial = an argument needs escaping, or "
            ">= 3 requests succeeded in sequence. Distinct = distinct canonical JSON.",
    "assumptions": COMMON_ASSUMPTIONS + [
        "the handler is called in-process (httptest), not over a socket",
        "responses are compared after normalising generated ids, list order and timing fields",
    ],
    "parts": [
        {"name": "encodings", "mode": "plain", "test": "TestC18",
         "quick": {"checks": 1200, "shards": 4}, "thorough": {"checks": 12000, "shards": 16}},
    ],
}

PROPS["C17"] = {
    "level": "exploration",
    "rule": "two parts. histories: 2-14 requests (create, facts add/get/rem/search incl. inherited, query, rules add/list/enabled/"
            "disable, ingest, size, parents) over locations la, lb and a never-created one, with 3 ms pauses before a quarter of the "
            "requests, run through sys.System once per location-cache TTL in {forever, never, 1 ms} (x existence checking x state "
            "drawn per case); the normalised result of every request must equal the TTL-forever run, and with existence checking a "
            "request to a never-created location must fail, write nothing to storage and leave no cache entry; non-trivial = a "
            "write followed, after a pause longer than the TTL, by a read of the same location. concurrent first requests: 2-16 "
            "goroutines with generated spin delays issue their first request (a write) for one fresh location simultaneously; "
            "afterwards every client's GetLocation must be the cached instance and every acknowledged write must be visible "
            "through it; non-trivial = N >= 4. Distinct = distinct canonical JSON.",
    "assumptions": COMMON_ASSUMPTIONS + [
        "schedules of the concurrent part are sampled (spin delays, 16 cores), not enumerated: the defect found there showed up about once per 1000 bursts",
        "'loads it once' is observed through instance identity and write visibility, not by counting storage loads (sys.System does not accept an injected storage)",
        "a persistent no-op cron is used (a System refuses finite TTLs with an ephemeral cron)",
    ],
    "parts": [
        {"name": "ttl-twins", "mode": "plain", "test": "TestC17",
         "quick": {"checks": 500, "shards": 4}, "thorough": {"checks": 5000, "shards": 16}},
        {"name": "concurrent-first", "mode": "plain", "test": "TestC17Concurrent",
         "quick": {"checks": 2500, "shards": 4}, "thorough": {"checks": 40000, "shards": 8}},
        {"name": "create-race-detector", "mode": "race", "test": "TestC17Create",
         "quick": {"checks": 60, "shards": 3}, "thorough": {"checks": 1500, "shards": 8}},
        {"name": "concurrent-race-detector", "mode": "race", "test": "TestC17Concurrent",
         "thorough": {"checks": 1500, "shards": 8}},
        {"name": "wipe-race-detector", "mode": "race", "test": "TestC17Wipe",
         "thorough": {"checks": 1000, "shards": 8}},
        {"name": "wipe-under-load", "mode": "plain", "test": "TestC17Wipe",
         "quick": {"checks": 300, "shards": 4}, "thorough": {"checks": 10000, "shards": 8}},
        {"name": "concurrent-create", "mode": "plain", "test": "TestC17Create",
         "quick": {"checks": 400, "shards": 4}, "thorough": {"checks": 20000, "shards": 8}},
    ],
}

PROPS["C11"] = {
    "level": "exploration",
    "rule": "cases are workloads of 2-8 client goroutines, each owning one location of ONE fresh engine and issuing 2-9 requests "
            "(AddFact, RemFact, GetFact, SearchFacts, AddRule, RemRule, EnableRule, ProcessEvent); all clients are released together "
            "(generated spin delays) so that the engine's very first requests race; driver sys.System (2/3) or HTTPService.ServeHTTP "
            "(1/3); indexed or linear. Oracle: every client's result sequence equals that of the same sequence run alone on a fresh "
            "engine; each location's records in the engine's storage equal those of the solo run; no crash, no deadlock (30 s); a "
            "second part runs the same workloads under the race detector and every data race report is a violation. Non-trivial = "
            ">= 3 clients with >= 5 requests each and >= 3 writes. Distinct = distinct canonical JSON.",
    "assumptions": COMMON_ASSUMPTIONS + [
        "schedules are sampled (spin delays, 16 cores, race detector), not enumerated or controlled",
        "a failure found here is schedule-dependent: the saved case reproduces it only with some probability",
    ],
    "parts": [
        {"name": "sequential-oracle", "mode": "plain", "test": "TestC11",
         "quick": {"checks": 600, "shards": 4}, "thorough": {"checks": 8000, "shards": 16}},
        {"name": "race-detector", "mode": "race", "test": "TestC11",
         "quick": {"checks": 80, "shards": 4}, "thorough": {"checks": 1000, "shards": 16}},
        {"name": "listener", "mode": "plain", "test": "TestC11Listener",
         "quick": {"checks": 100, "shards": 4}, "thorough": {"checks": 3000, "shards": 8}},
    ],
}
PROPS["C12"] = {
    "level": "exploration",
    "rule": "cases are workloads of 2-8 client goroutines with 3-8 operations each from AddFact/RemFact/GetFact/SearchFacts/AddRule/"
            "RemRule/EnableRule/RuleEnabled/GetRule/ProcessEvent over the shared ids f1, f2, r1, r2 of ONE location (indexed or linear); "
            "half of the cases focus all clients on one id and one family of operations and repeat the workload 1-10 times; the "
            "storage optionally delays writes by 20-100 us (lock convoys); written values "
            "and rule tags carry (client, sequence number). Oracle: porcupine finds a linearisation of the recorded call/return "
            "history (plus final reads of every fact id and a final event) under a sequential model of these operations; the final "
            "storage records agree with the final in-memory facts; every operation succeeds; no crash, no deadlock (30 s); a second "
            "part runs the same workloads under the race detector and every data race report is a violation. Non-trivial = two "
            "clients wrote the same id with overlapping call intervals (measured from the recorded history). Distinct = distinct "
            "canonical JSON.",
    "assumptions": COMMON_ASSUMPTIONS + [
        "schedules are sampled (spin delays, slow storage, schedule noise through Context.PointHook and the verif-tag yield points at lock boundaries, 16 cores, race detector), not enumerated or owned by the harness",
        "expiry-driven removals have a part of their own (real time, one case per second): the linearizability oracle is not applied there, only crash / race / never-resurrected / gone-afterwards / bystanders-untouched",
        "a failure found here is schedule-dependent: the saved case reproduces it only with some probability",
    ],
    "parts": [
        {"name": "linearizability", "mode": "plain", "test": "TestC12",
         "quick": {"checks": 300, "shards": 8}, "thorough": {"checks": 8000, "shards": 16}},
        {"name": "race-detector", "mode": "race", "test": "TestC12",
         "quick": {"checks": 50, "shards": 6}, "thorough": {"checks": 1000, "shards": 16}},
        {"name": "expiry", "mode": "plain", "test": "TestC12Expiry",
         "quick": {"checks": 12, "shards": 4}, "thorough": {"checks": 150, "shards": 8}},
        {"name": "expiry-race", "mode": "race", "test": "TestC12Expiry",
         "quick": {"checks": 10, "shards": 4}, "thorough": {"checks": 100, "shards": 8}},
    ],
}

# Properties deliberately not claimed (reason shown in MANIFEST.not_applicable).
NOT_APPLICABLE = {}

_PBT = "property-based testing (rapid): "
TEXT = {
    "C01": {
        "technique": _PBT + "stateful generated histories vs brute-force reference model (differential indexed/linear)",
        "level_text": "Generated-history exploration: every dispatched rule set and binding set is compared with a brute-force model "
                      "(refmatch over all stored rules); finds index incompleteness and stale index entries on small rule sets. Not a proof.",
        "level_note": "Trusted: the reference matcher/model in harness/refmatch and harness/props/model.go; sampled histories of <= 25 operations, <= 4 rule ids per location, <= 2 ancestors.",
    },
    "C02": {
        "technique": _PBT + "stateful generated histories vs brute-force reference model (differential indexed/linear)",
        "level_text": "Generated-history exploration: every search/get result is compared with a brute-force model over the stored facts. Not a proof.",
        "level_note": "Trusted: reference matcher/model; sampled histories of <= 30 operations over 6 ids.",
    },
    "C06": {
        "technique": _PBT + "generated histories x enumerated crash points and injected storage faults (wrapping core.Storage); live-vs-reloaded differential; per-id before/after oracle",
        "level_text": "Fault enumeration inside generated histories: every (thorough) or three drawn (quick) storage-write crash points and storage-call failures per history; reload equivalence after every step. Not a proof.",
        "level_note": "Trusted: fault-injecting storage wrapper (props/faultstore.go), reference model; crash = panic before the k-th write with all later writes dropped.",
    },
    "C07": {
        "technique": _PBT + "generated timed histories on a virtual clock (Go faketime) vs reference model with exact expiry instants; boundary instants hit by construction",
        "level_text": "Generated exploration of write/observe/reload interleavings around the expiry instant on a harness-owned clock. Not a proof.",
        "level_note": "Trusted: Go runtime faketime mode (CGO_ENABLED=0, GOMAXPROCS=1), reference model; 3 items + 1 dependent, <= 14 operations.",
    },
    "C08": {
        "technique": _PBT + "generated dependency graphs and deletion orders vs reference transitive-closure model (memory and storage)",
        "level_text": "Generated-graph exploration: after every step presence of every id, rule list and stored key set equal the model's closure; termination by watchdog. Not a proof.",
        "level_note": "Trusted: reference model; graphs over 6 ids + dangling target, <= 17 operations.",
    },
    "C10": {
        "technique": _PBT + "stateful generated lifecycle histories vs reference model; unique action tags make stale rules observable",
        "level_text": "Generated-history exploration of add/overwrite/remove/disable/enable/reload/location-toggle interleavings with events. Not a proof.",
        "level_note": "Trusted: reference model; 3 rule ids (+3 inherited), fixed small pattern/event pools, <= 25 operations.",
    },
    "C03": {
        "technique": _PBT + "grammar-generated query trees vs reference evaluator (multiset comparison), differential indexed/linear, Query vs rule-condition paths",
        "level_text": "Generated exploration of query trees against a reference evaluator that implements the statement literally. Not a proof.",
        "level_note": "Trusted: reference evaluator (props/c03_test.go) and refmatch; depth <= 3, arity <= 3, <= 9 facts; code terms limited to templates.",
    },
    "C04": {
        "technique": _PBT + "generated rule sets/events vs expected execution multiset (tree leaves, values, Env.out); race-detector build as second oracle",
        "level_text": "Generated exploration: every (rule, binding, action) execution is accounted for exactly once in tree, values and out channel; process death and data races are violations. Not a proof.",
        "level_note": "Trusted: expected-execution calculator built on refmatch + C03 reference evaluator; action programs from four templates.",
    },
    "C20": {
        "technique": _PBT + "generated add/remove histories around the capacity boundary; generated arrival patterns on a virtual clock vs closed-form sliding-window and recovery oracles",
        "level_text": "Generated exploration of capacity histories and of breaker/throttle arrival patterns (exact instants on a virtual clock). Not a proof.",
        "level_note": "Trusted: Go faketime mode, the closed-form window oracle; bursts are concurrent goroutines at one virtual instant.",
    },
    "C16": {
        "technique": _PBT + "generated job-operation sequences on a virtual clock vs closed-form due-time/occurrence oracles and a table/index consistency invariant (in-package via overlay for crolt)",
        "level_text": "Generated exploration of both cron services with exact virtual instants; every fire is attributed to a job generation. Not a proof.",
        "level_note": "Trusted: Go faketime mode; the overlay that compiles the check into package main of /repo/crolt; firing observed through the job's index id.",
    },
    "C15": {
        "technique": _PBT + "stateful generated histories vs reference model with a recording cron (registration-set invariant, harness-delivered ticks) and the real cron on a virtual clock",
        "level_text": "Generated exploration of the rule/cron coupling across locations; registrations compared after every step. Not a proof.",
        "level_note": "Trusted: recording Cronner (props/c15_test.go), reference model, Go faketime for the InternalCron part.",
    },
    "C13": {
        "technique": _PBT + "grammar-based hostile-document generation against every role and API level; totality oracle (panic/fatal/hang via journaled child) + differential canary transcript vs fresh twin",
        "level_text": "Generated exploration of hostile inputs; process death and hangs are observed from outside the process. Not a proof; native coverage-guided fuzzing was not needed to find the defects listed.",
        "level_note": "Trusted: journaled child-process runner; canary transcript comparison. The one known crasher (dependency) is excluded by construction and replayed on every run.",
    },
    "C09": {
        "technique": _PBT + "stateful generated multi-location histories vs per-location reference model with ancestor closure at observation time; full observation vector of every location after every step",
        "level_text": "Generated exploration of forests, DAGs and cyclic parent graphs; interference is any change of a location's vector that the model does not predict. Not a proof.",
        "level_note": "Trusted: reference model; 3-5 locations, <= 22 operations; loops die fast through a 64 MiB stack limit and the journaled child.",
    },
    "C19": {
        "technique": _PBT + "generated histories on protected/unprotected twin locations (differential) with an authorisation oracle per operation x protection state x caller context; storage snapshot invariance for refused calls",
        "level_text": "Generated exploration of the operation x protection x context matrix at arbitrary points of a history, including action-issued writes. Not a proof.",
        "level_note": "Trusted: the authorisation table in props/c19_test.go (derived from the statement), twin comparison.",
    },
    "C14": {
        "technique": _PBT + "generated scripts from five families x placements x timeout sources, with generator-known values (round-trip) and real-time containment bounds",
        "level_text": "Generated exploration of script families in every placement and timeout configuration; hangs are detected by an in-test deadline and by the runner. Not a proof.",
        "level_note": "Trusted: wall clock with a generous hard bound; the template families' expected values.",
    },
    "C18": {
        "technique": _PBT + "generated request scenarios rendered in six encodings x URI prefixes, differential against direct System calls on fresh engines; malformed-request classes must map to HTTP 400",
        "level_text": "Generated exploration of encodings, escaping and error classes; every response is parsed and compared with the direct call. Not a proof.",
        "level_note": "Trusted: the per-operation normalisers in props/c18_test.go; yaml.v2 to render YAML bodies.",
    },
    "C17": {
        "technique": _PBT + "metamorphic: one generated request history replayed under every cache configuration must give identical results; generated concurrent bursts with an instance-identity / write-visibility oracle",
        "level_text": "Generated exploration of request histories across cache TTLs and of concurrent first-request bursts. Not a proof; the concurrent part samples schedules.",
        "level_note": "Trusted: result normalisers shared with C18; real time pauses of 3 ms vs a 1 ms TTL.",
    },
    "C11": {
        "technique": _PBT + "generated concurrent workloads on disjoint locations vs per-client sequential oracle (differential against a solo run) + race detector",
        "level_text": "Generated exploration of concurrent workloads; schedules are sampled, not controlled. Not a proof.",
        "level_note": "Trusted: Go race detector; solo-run oracle; journaled child processes for crashes and deadlocks.",
    },
    "C12": {
        "technique": _PBT + "generated concurrent workloads on shared ids; linearizability oracle (porcupine) over the recorded history + memory/storage agreement + race detector",
        "level_text": "Generated exploration of concurrent workloads on one location with a linearizability check of every observed history; schedules are sampled, not controlled. Not a proof.",
        "level_note": "Trusted: porcupine checker and the sequential model in props/c12_test.go; Go race detector.",
    },
    "C05": {
        "technique": _PBT + "generated (pattern, data, bindings) vs independent brute-force matcher; substitution round-trip; metamorphic typed variants",
        "level_text": "Generated-input exploration of the matcher against an independent declarative implementation (strict <= got <= lenient), "
                      "a reference-free substitution check, input immutability and Go-typed-variant agreement. Not a proof.",
        "level_note": "Trusted: harness/refmatch. Depth <= 3, tiny alphabets; data strings starting with '?' excluded (fatal recursion in the dependency, see C13).",
    },
}

# The world-based sequential checks also run with the cron state hooks installed.
_HOOKS_NOTE = (" In a third of the cases (half for C04) the cron state hooks are installed on the states, as sys.System installs "
               "them on every location it serves: adds the hook refuses must leave no trace, removals of absent ids are reported "
               "as not-found and remove nothing.")
for _p in ("C01", "C02", "C04", "C08", "C10"):
    PROPS[_p]["rule"] += _HOOKS_NOTE
PROPS["C04"]["rule"] += (" A further action kind writes a fact of its own (Env.AddFact) per execution; the facts found afterwards "
                         "must be exactly those of the expected executions.")
PROPS["C14"]["rule"] += (" A further family is runaway recursion (direct, mutual, through a callback) under limits of 20 ms, 200 ms, the "
                         "shipped 60 s and with timeouts disabled: it must end as an error on its node within 20 s - stopped by the "
                         "timeout or by an error of its own - and the process must survive (the test binary caps the Go stack at "
                         "64 MB so that an overflow shows in seconds).")
PROPS["C12"]["rule"] += (" A third of the workloads run with the cron state hooks installed (removing what is not there may then report "
                         "not-found, which the sequential model accepts as a no-op), and in a third the rules' actions also write a fact "
                         "of their own (Env.AddFact) whose stored and in-memory values must agree at the end.")

# Native coverage-guided fuzzing (thorough tier only): the same generators and oracles, driven by `go test -fuzz`
# through rapid.MakeFuzz.
for _p, _t, _f in (("C05", "TestC05", "FuzzC05"), ("C13", "TestC13", "FuzzC13"), ("C03", "TestC03", "FuzzC03"),
                   ("C02", "TestC02", "FuzzC02"), ("C01", "TestC01", "FuzzC01"), ("C18", "TestC18", "FuzzC18"),
                   ("C08", "TestC08", "FuzzC08")):
    PROPS[_p]["parts"].append({"name": "native-fuzz", "mode": "fuzz", "test": _t, "fuzz": _f,
                               "thorough": {"fuzztime": "120s", "timeout": 1200}})
PROPS["C07"]["rule"] += (" Besides the expiring items the histories hold a rule r2 that is a deleteWith dependent of an expiring item "
                         "(usually of the expiring rule r1, for the same events) and a rule that never expires; a failing ProcessEvent is "
                         "a violation whenever the model has a rule that must be dispatched.")
PROPS["C01"]["rule"] += " Rule ids are also overwritten by scheduled rules (which events never dispatch) and by facts whose 'rule' is not a rule body."

PROPS["C12"]["rule"] += (" Expiry part: facts and rules that expire at the next full second (optionally with deleteWith dependents) "
                         "are read by 2-6 clients (get, search, rule list, rule look-up, events, unrelated writes) across that "
                         "instant in real time; no crash, no race report, every read gives the written value or not-found and "
                         "never the item again after not-found, afterwards the expired items and their dependents are gone from "
                         "memory and storage and the items without expiry are untouched.")
PROPS["C10"]["rule"] += (" Rule ids are also overwritten by scheduled rules; with a parent, the parent location itself is disabled and "
                         "enabled again: while it is disabled none of its rules may be among the rules an event sent to the child "
                         "evaluates (what else such an event does is not specified).")
PROPS["C15"]["rule"] += " In the sys.System part the client uses either a fresh core.Context per request or one context for all its requests to all locations."
PROPS["C11"]["rule"] += (" Every engine starts from the process's first-use state (timer histories cleared); some rules take their tag "
                         "from a named library of the location control while their action text is the same in every location.")
PROPS["C04"]["rule"] += (" Another action kind writes to its view of the event (a counter) before returning what it sees: every "
                         "execution must count exactly one, and the caller's event must be unchanged afterwards.")
PROPS["C20"]["rule"] += (" Capacity part: half of the cases serve the location through a sys.System whose default location control, or "
                         "the control of the location's group (GroupControls / LocToGroup), carries the maximum.")
PROPS["C13"]["rule"] += (" One case in six continues with a 'self-binding' sequence: a variable-looking string stored (or sent) as data, "
                         "a pattern that binds the variable of the same name to it, and a later conjunct or rule condition that uses "
                         "the variable again (each pattern holds the variable once; repeated variables in one pattern over such data "
                         "are the excluded known finding).")
PROPS["C16"]["rule"] += (" crolt part: a third of the jobs are slow (their HTTP request, answered by a fake transport without network, "
                         "takes 200 ms of virtual time inside the firing loop's transaction), and Delete requests also arrive while a "
                         "pass of the firing loop is running.")
PROPS["C09"]["rule"] += " A 'bulk' operation stores 20-70 facts in one location at once, so that inherited results exceed 64 entries."
PROPS["C09"]["rule"] += " The parent set is also written and removed as what the manual says it is, an ordinary property fact ({\"!parents\": [...]} / id \"!.parents\")."
PROPS["C15"]["rule"] += " The actions of scheduled rules report the `location` and `ruleId` bindings they see, which must be those of the ticking rule."
PROPS["C11"]["rule"] += (" Besides the solo-vs-concurrent comparison, everything an event or search returns must carry the client's own "
                         "tags (this also holds in the solo runs, which share the process with whatever ran before).")
PROPS["C18"]["rule"] += " A third of the facts and events carry a nested argument shape (lists directly inside lists with maps below, empty containers)."
PROPS["C12"]["rule"] += (" Half of the workloads run with schedule noise: the location's timers are on and a PointHook on every client "
                         "context (called by rulio whenever a timed section ends, i.e. after the locks of a state or location operation "
                         "are released) yields or sleeps for 40-250 us, pseudo-randomly from the case.")
for _p in ("C11", "C17"):
    PROPS[_p]["rule"] += " Half of the concurrent cases run with schedule noise (yields and 30-250 us sleeps at lock boundaries and at the end of timed sections; DESIGN.md A.0, Hooks)."
PROPS["C16"]["rule"] += (" Both parts also generate cron expressions without a future occurrence (which must never fire; refusing them is "
                         "fine) and, for crolt, absolute RFC3339 due times.")
PROPS["C16"]["rule"] += " No job may fire inside a span in which the cron is certainly suspended (from the moment the loop has taken the suspend command to the call of Resume)."
PROPS["C18"]["rule"] += " Further error classes: an ill-typed id, an ill-typed uri (carried by a body or a batch element), an ill-typed set."
PROPS["C18"]["rule"] += " The operations include /api/loc/util/js (scripts with and without a value, missing / ill-typed / non-compiling code)."
PROPS["C06"]["rule"] += (" After an injected storage failure (reported as an error) the remaining operations run; what the failed operation "
                         "names is unspecified until an acknowledged operation defines it again, everything else - in particular every "
                         "operation acknowledged afterwards - must be there, live and rebuilt from storage.")
PROPS["C02"]["rule"] += " In a third of the cases the facts are written in Go-typed form (nested core.Map, []string, []map[string]interface{}, [][]string), as Go callers and the Javascript bridge deliver them."
PROPS["C14"]["rule"] += " A 'cyclic' family returns (or hands to Env.AddFact) a value that refers to itself: the call must come back and the process survive."
PROPS["C16"]["rule"] += (" In a third of the in-memory cases the cron's context logs and its LogHook sleeps 1-300 ms (virtual) where the firing "
                         "goroutine re-schedules a recurring job, so that harness operations fall into that moment.")
PROPS["C17"]["rule"] += (" The concurrent part also runs with a 1 ms TTL (entries expire between and during requests): every client writes "
                         "1-5 facts and reads each one back as soon as the write is acknowledged; the read must find it.")
PROPS["C09"]["rule"] += " After every operation an embedded ('evaluate!') rule is evaluated at every location with a context that was last used for another location: its action must run in, and write to, the location it was sent to."
PROPS["C15"]["rule"] += " Schedules in the sys.System part are either recurring or bounded (a year-bounded cron expression with exactly one occurrence); a bounded rule must run once, never twice, and a restart after its occurrence must still load the location."
PROPS["C13"]["rule"] += " Half of the cases run with the real in-process cron behind the state hooks (never started: parsing and book-keeping only), and a quarter of the rule/fact cases carry a generated schedule (cron expressions built from a hostile field alphabet, one-shot forms). The canary includes a fact that depends (deleteWith) on another canary fact."
PROPS["C13"]["rule"] += " System cases run with and without CheckExistence. Accepted facts and rules — those with generated ids and property facts (`!`-keys) included — are removed again by the id the call returned (removal must succeed) before the canary transcript is compared with a fresh twin; only access keys and the location's off switch are exempt."
PROPS["C07"]["rule"] += " Half of the histories run with the cron state hooks installed (as sys.System does), and histories may clear the location, which must succeed whatever has expired in it and leave storage empty."
PROPS["C17"]["rule"] += " The histories also use enable, remRule, getRule, searchRules and the location-stats requests. A third part (concurrent-create) runs with existence checking: 2-8 clients issue 1-4 first requests each for a location that does not exist yet - checked requests (GetSize, which must fail until the location is created), unchecked loads (what an inherited search does for a parent) and CreateLocation - with spin delays, schedule noise and optionally 200/900 pre-stored records to make loads slow; once a CreateLocation has returned without error, that client's AddFact and the read of that fact must succeed, and after the burst the location exists and every acknowledged write is visible; non-trivial = a checked request failed or was in flight when a CreateLocation started."
PROPS["C15"]["rule"] += " Part 1 also deletes locations (Location.Delete), uses rule ids that need quoting in JSON (a double quote, a backslash, a space), schedules with white space around them, and delivers each tick with the event text that was registered for the job (which must be JSON)."
PROPS["C15"]["rule"] += " In half of the sys.System cases A and B have a parent location P (with a fact the rules' conditions look at and a yearly rule of its own that must never run); `outage` operations switch P off for 1.1 or 2.3 s, during which ticks may fail; recurring rules must be running again afterwards."
PROPS["C15"]["rule"] += " A third part (crolt-glue) covers the persistent service end to end, in process: locations whose state hooks use cron.CroltSimple, whose HTTP client is routed to the handlers of the real crolt (package main, injected with -overlay; no network; firing loop not started); histories (2-14 ops) of adding scheduled rules (cron expressions, '+d', '!t', '@yearly'), writing them again with another schedule, overwriting them with ordinary rules or facts, RemRule, Clear, Delete and reload over two locations; after every op crolt's job table must hold exactly one job per live scheduled rule, with that rule's current schedule and an event that names the rule and its location; non-trivial = a scheduled rule was overwritten or removed."
PROPS["C12"]["rule"] += " Every event's result (the work) is encoded as JSON by the client, as the service does before it answers."
PROPS["C20"]["rule"] += " A fourth part (capacity-concurrent): 2-8 clients add 1-3 facts or rules each, with distinct ids, to one location with MaxFacts 1..6 and 0..max facts stored beforehand, at the same time (spin delays, schedule noise at the lock boundaries); afterwards the location holds <= max items, no more adds succeeded than there was room for (and not fewer, when enough were attempted), every acknowledged item is there and no refused one is; non-trivial = more adds than room."
PROPS["C17"]["rule"] += " A fourth part (wipe-under-load): 1-3 requests that run a script which sleeps 2-20 ms and then writes a fact, 0-3 clients that write three facts each, and one DeleteLocation or ClearLocation issued 0-6 ms into the burst, all on one location (TTL forever, 1 h or 1 ms; schedule noise); a write that started after the wipe had returned - also one made by a script whose request began before the wipe - must be acknowledged, readable by its writer at once and still there at the end; non-trivial = at least one such write."
PROPS["C20"]["rule"] += " A fifth part (http-breaker) drives the breaker where rulio uses it, in core.HTTPRequest.Do: a breaker (limit 1..5 per minute) registered for a host, 1-3 bursts of 2-16 concurrent requests to that host through an in-process transport that counts what goes out (no network); at most `limit` requests go out, exactly min(total, limit) do, the others are answered 430; non-trivial = more requests than the limit."
PROPS["C15"]["rule"] += " One schedule in eight of the sys.System part lies wholly in the past (1 January 2001 on the virtual clock): the rule is refused (and then nothing changes - a rule of that id that was there keeps running) or it exists and never runs."
PROPS["C12"]["rule"] += " Facts carry a second property with one of two names, and `searchKind` requests search for one of them (such a search meets what overwritten and removed facts left behind in the term index)."
PROPS["C17"]["rule"] += " The three concurrent parts also run under the race detector (create: both tiers; first-requests and wipe: thorough tier): any data race report naming rulio frames is a violation."
PROPS["C10"]["rule"] += " Histories also add event rules that carry an empty (\"\" or null) `schedule` (which must fire like any event rule unless the add is refused) and send events that bring their own rule along (`evaluate!`), which run exactly that rule in an enabled location and are refused by a disabled one."
PROPS["C08"]["rule"] += " A second part (expiry-cascade, virtual clock) runs the expiry histories of C07 - items with every expiry encoding, dependents d1 and dependent rule r2, observations around the expiry instant, reloads, clears, slow storage, state hooks - with the strict reading of deletion by expiry: when an expired item that nobody has looked at is written again, the dependents it had before its expiry instant are gone."
PROPS["C08"]["rule"] += " Half of the properties are written as facts ({id: target, '!p': value}) rather than with SetProp; they must go with their target all the same (whether the dependency shows in the stored form is not prescribed)."
PROPS["C14"]["rule"] += " The non-terminating family includes scripts that get past the limit inside a built-in function (one long Env.sleep as the last step, many short ones in a loop); the throwing family includes thrown values that cannot be turned into a message and results whose getter throws. A 'good' script that fails is only a violation if it came back in less than half its limit (a busy machine can make a script meet its limit for real)."
PROPS["C14"]["rule"] += " A `chain` family returns what Env.ProcessEvent returned (with and without a rule for the inner event, bare and wrapped in an object): such a script finishes and succeeds. The self-referring values include cycles hidden from JSON (a toJSON method; a JSON object replaced by the script)."
PROPS["C14"]["rule"] += " Actions are written with every documented code encoding (absent, \"none\", \"\", base64)."
PROPS["C11"]["rule"] += " A third part (listener) puts the HTTP service behind its own service.Listener on a loopback port, with a limit on pending requests of 0 (none), 1, 2 or 3: 2-6 clients, one location each, send 1-4 requests each over fresh connections, whose scripts sleep 0, 5 or 20 ms; the process survives, every request is answered with its own value or - only with a limit - turned away, and afterwards every location is served; non-trivial = no limit, or a request was turned away."
PROPS["C20"]["rule"] += " The breaker part also draws limits of 15, 25 and 40 and steady arrival rates (one call every 1/3 ... 3 ticks for three intervals), and demands admission whenever fewer than `limit` admitted calls are younger than the interval plus two ticks (a window kept at tick resolution may hold a call one tick longer than the interval; two ticks of grace)."
PROPS["C05"]["rule"] += " The Go-typed variant of a case types the values of its initial bindings as well."
PROPS["C01"]["rule"] += " When an event is refused because of an array the index cannot sort, the locations are rebuilt from the items they hold now (nothing removed or replaced has ever been there) and must refuse the event too; and once rules have been removed or replaced, an event that is processed must not be refused by the rebuilt locations either: a refusal may rest on the rules that are there, not on those that were."
_OPT_NOTE = " Patterns include optional fields (a field whose value is an optional variable, \"??o\": it need not be there, and binds the variable if it is); the reference matcher implements them, and the data instantiated from a pattern leaves such a field out half of the time."
for _p in ("C01", "C02", "C05"):
    PROPS[_p]["rule"] += _OPT_NOTE
PROPS["C03"]["rule"] += " Patterns may use property variables, and one case in ten is a property chain: a variable bound by an earlier conjunct (or by the event) used as a property by a later pattern, bare or under `not`, over facts that offer several properties. The reference evaluator substitutes bound variables in property position too (when bound to a string)."
PROPS["C03"]["rule"] += " One case in ten is a not-chain: several candidate bindings go into a `not` whose inside reads them (another `not`, a script comparing the variable, an `and` of both)."
PROPS["C08"]["rule"] += " A property written as a fact may carry a deleteWith of its own that does not name its target (empty, a dangling id, another id); it still goes with its target."
PROPS["C14"]["rule"] += " Values in which one object occurs twice (shared, not circular) must come back intact; the self-referring family includes function values with properties."
PROPS["C12"]["rule"] += " In a quarter of the workloads every rule has two actions (which run in parallel) that both write into the object the rule's `when` binds from the event."
PROPS["C12"]["rule"] += " The fact-writing actions store a value bound from the event and keep writing to it afterwards; the final comparison of memory and storage compares whole contents."
PROPS["C18"]["rule"] += " The js requests include scripts that need a library of the location's control, named in a `libraries` list."
PROPS["C18"]["rule"] += " Ill-typed parent lists include JSON text whose elements are not all names ([null], [\"x\", null], [1])."
PROPS["C18"]["rule"] += " Some js requests give their code as an array of lines (one of which ends in a // comment)."
PROPS["C02"]["rule"] += " One fact in twenty has an object under \"rule\" (a rule body, well-formed or not): whatever is decided when it is added must hold for the location loaded from storage, too."
PROPS["C17"]["rule"] += " In the concurrent-create part a checked request that is over before the first CreateLocation has begun must have failed."
PROPS["C15"]["rule"] += " The crolt-glue histories also write rules with schedules that crolt refuses ('tomorrow', an expression without an occurrence to come): the add fails and nothing changes - a rule of that id that was there keeps its job."
PROPS["C05"]["rule"] += " For the Go-typed variant the pattern, the data and the initial bindings are copied with their types before the match and compared with reflect.DeepEqual afterwards (a core.Map that has become a map[string]interface{} is a modification)."
PROPS["C06"]["rule"] += " With the bolt back end every case ends with the records Load hands out being kept while all of them are removed and others are written (six rounds, in this location and another one); the kept keys and values must read as they did."
PROPS["C10"]["rule"] += " `trigger` requests send an event that names its rule (what a cron service delivers), with or without a property that event rules look for: a disabled or absent rule produces no value, an enabled one exactly its own (an event rule only if its condition matches the event), and a one-shot scheduled rule is gone afterwards."
PROPS["C16"]["rule"] += " The crolt part also schedules jobs for absolute times written with a zone offset (-11 h to +13 h); a firing is early if it comes before the instant that was asked for, whatever the time index says."
