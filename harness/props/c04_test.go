package props

// C04 — an event runs each action exactly once per rule and binding result.
//
// Generated rule sets (0..4 rules, 1..3 actions each, `when` with or without
// an array variable, conditions yielding 0..3 bindings, serialActions on
// some, throwing / non-compiling actions), a fact state and an event.  The
// leaves of the returned work tree, the values list and the Env.out channel
// are compared with the expected executions
//   Σ dispatched rules × when-bindings × condition-bindings × actions.

import (
	"fmt"
	"sort"
	"strings"
	"testing"

	"github.com/Comcast/rulio/core"
	"github.com/Comcast/rulio/cron"
	"pgregory.net/rapid"

	"verif/harness/refmatch"
	"verif/harness/vlib"
)

type c04Rule struct {
	Id      string   `json:"id"`
	When    string   `json:"when"`    // "const" | "arr" | "other"
	Cond    string   `json:"cond"`    // "" | "f" | "join" | "or" | "none-match"
	Actions []string `json:"actions"` // "value" | "out" | "throw" | "syntax" | "addfact" | "mark"
	Serial  bool     `json:"serial"`
}

type c04Case struct {
	Rules []c04Rule     `json:"rules"`
	F     []interface{} `json:"f"` // facts {"f": v}
	G     []interface{} `json:"g"` // facts {"g": v}
	E     []interface{} `json:"e"` // event {"t":"go","e":[...]}
	// Hooks installs the cron state hooks (as sys.System does for every
	// location it serves).
	Hooks bool `json:"hooks,omitempty"`
}

func genC04(t *rapid.T) c04Case {
	var c c04Case
	vals := []interface{}{"x", "y", "z"}
	draw := func(label string, max int) []interface{} {
		n := rapid.IntRange(0, max).Draw(t, label+".n")
		var acc []interface{}
		seen := map[interface{}]bool{}
		for i := 0; i < n; i++ {
			v := rapid.SampledFrom(vals).Draw(t, label)
			if !seen[v] {
				seen[v] = true
				acc = append(acc, v)
			}
		}
		return acc
	}
	c.F, c.G = draw("f", 3), draw("g", 3)
	c.E = draw("e", 3)
	if len(c.E) == 0 {
		c.E = []interface{}{"x"}
	}
	nr := rapid.IntRange(0, 4).Draw(t, "nrules")
	for i := 0; i < nr; i++ {
		l := fmt.Sprintf("r%d", i)
		r := c04Rule{Id: fmt.Sprintf("R%d", i+1)}
		r.When = rapid.SampledFrom([]string{"const", "arr", "arr", "other"}).Draw(t, l+".when")
		r.Cond = rapid.SampledFrom([]string{"", "", "f", "f", "join", "or", "none-match", "orcode", "notcode"}).Draw(t, l+".cond")
		na := rapid.IntRange(1, 3).Draw(t, l+".nactions")
		for j := 0; j < na; j++ {
			r.Actions = append(r.Actions, rapid.SampledFrom([]string{"value", "value", "value", "out", "throw", "syntax", "addfact", "addfact", "mark", "mark"}).Draw(t, fmt.Sprintf("%s.a%d", l, j)))
		}
		r.Serial = rapid.IntRange(0, 3).Draw(t, l+".serial") == 0
		c.Rules = append(c.Rules, r)
	}
	c.Hooks = rapid.Bool().Draw(t, "hooks")
	return c
}

// c04MadeId is the id of the fact an "addfact" action writes: one per
// (rule, action, bindings).
func c04MadeId(ruleId string, k int, b refmatch.Bindings) string {
	part := func(v string) string {
		if x, bound := b[v]; bound {
			return fmt.Sprint(x)
		}
		return "_"
	}
	return fmt.Sprintf("m/%s/%d/%s,%s,%s", ruleId, k, part("?x"), part("?y"), part("?z"))
}

const c04Guard = "x: (typeof x === 'undefined' ? '__unbound__' : x), y: (typeof y === 'undefined' ? '__unbound__' : y), z: (typeof z === 'undefined' ? '__unbound__' : z)"

func c04ActionCode(ruleId string, k int, kind string) string {
	obj := fmt.Sprintf("({r: ruleId, k: %d, want: '%s', loc: location, ev: event, %s})", k, ruleId, c04Guard)
	switch kind {
	case "value":
		return obj
	case "out":
		return fmt.Sprintf("Env.out('%s/%d'); %s", ruleId, k, obj)
	case "mark":
		// scribbles on its view of the event (counting earlier scribbles)
		// before returning like "value": every execution has a view of
		// its own, so each must count exactly one
		return fmt.Sprintf("event.mark = (event.mark || 0) + 1; %s", obj)
	case "addfact":
		// writes a fact of its own into the location, then returns like "value"
		return fmt.Sprintf("var u = function(v) { return typeof v === 'undefined' ? '_' : v; }; var mid = 'm/' + ruleId + '/%d/' + [u(typeof x === 'undefined' ? undefined : x), u(typeof y === 'undefined' ? undefined : y), u(typeof z === 'undefined' ? undefined : z)].join(','); Env.AddFact(mid, {made: mid}); %s", k, obj)
	case "throw":
		return fmt.Sprintf("var marker%d = 1; throw new Error('boom %s/%d');", k, ruleId, k)
	default:
		return fmt.Sprintf("var marker%d = (((;", k)
	}
}

func (r c04Rule) whenPattern() M {
	switch r.When {
	case "const":
		return M{"t": "go"}
	case "arr":
		return M{"e": A{"?x"}}
	}
	return M{"t": "nomatch"}
}

func (r c04Rule) condition() M {
	switch r.Cond {
	case "f":
		return M{"pattern": M{"f": "?y"}}
	case "join":
		// joins on ?x when `when` binds it, otherwise binds ?x
		return M{"and": A{M{"pattern": M{"g": "?x"}}, M{"pattern": M{"f": "?y"}}}}
	case "or":
		return M{"or": A{M{"pattern": M{"f": "?y"}}, M{"pattern": M{"g": "?y"}}}}
	case "none-match":
		return M{"pattern": M{"nothing": "?y"}}
	case "orcode":
		// two code disjuncts, each binding a different variable
		return M{"or": A{
			M{"code": "({y: 'fromfirst'})", "sem": M{"kind": "objconst", "target": "?y", "val": "fromfirst"}},
			M{"code": "({z: 'fromsecond'})", "sem": M{"kind": "objconst", "target": "?z", "val": "fromsecond"}},
		}}
	case "notcode":
		// the negated query binds ?z and then fails: ?z must not leak
		return M{"and": A{
			M{"not": M{"and": A{
				M{"code": "({z: 'tmp'})", "sem": M{"kind": "objconst", "target": "?z", "val": "tmp"}},
				M{"code": "false", "sem": M{"kind": "const", "keep": false}},
			}}},
			M{"pattern": M{"f": "?y"}},
		}}
	}
	return nil
}

type c04Exec struct {
	rule string
	bkey string
	code string
}

func runC04(c c04Case) *vlib.Outcome {
	o := &vlib.Outcome{}
	event := M{"t": "go", "e": A(c.E)}
	for _, kind := range []string{"indexed", "linear"} {
		w := newWorld(kind, nil, o)
		if c.Hooks {
			w.hooks = func(st core.State) { cron.AddHooks(newCtx(), nullCron{}, st) }
			o.Label("state-hooks")
		}
		w.open("L")
		for _, v := range c.F {
			w.addFact("L", "", M{"f": v})
		}
		for _, v := range c.G {
			w.addFact("L", "", M{"g": v})
		}
		anySerial := false
		for _, r := range c.Rules {
			rule := M{"when": M{"pattern": r.whenPattern()}}
			if cond := r.condition(); cond != nil {
				rule["condition"] = cond
			}
			acts := A{}
			for k, a := range r.Actions {
				acts = append(acts, M{"code": c04ActionCode(r.Id, k, a)})
			}
			rule["actions"] = acts
			if r.Serial {
				rule["policies"] = M{"serialActions": true}
			}
			if res := w.addRule("L", r.Id, rule); res.Err != nil {
				o.Fail("ADDRULE_ERROR", "AddRule(%s) failed: %v", vlib.JSON(rule), res.Err)
				return o
			}
		}
		// expected executions
		ref := &refEval{}
		for _, it := range w.model["L"].Items {
			ref.facts = append(ref.facts, it.Stored)
		}
		type expExec struct {
			ok    bool // action succeeds
			out   string
			made  string // id of the fact the action writes
			bind  refmatch.Bindings
			count int
		}
		expected := map[c04Exec]*expExec{}
		total, dims := 0, map[string]bool{}
		serialFailure := false
		nDispatched := 0
		for _, r := range c.Rules {
			wb := refmatch.Match(r.whenPattern(), event, nil, refmatch.Strict).Bss
			if len(wb) == 0 {
				continue
			}
			nDispatched++
			if len(wb) > 1 {
				dims["when"] = true
			}
			for _, b := range wb {
				cb := []refmatch.Bindings{b}
				if cond := r.condition(); cond != nil {
					cb = ref.eval(cond, cb, refmatch.Strict, &evalFlags{})
				}
				if len(cb) > 1 {
					dims["cond"] = true
				}
				for _, b2 := range cb {
					for k, a := range r.Actions {
						ex := c04Exec{r.Id, refmatch.Key(b2), c04ActionCode(r.Id, k, a)}
						e := expected[ex]
						if e == nil {
							e = &expExec{ok: a == "value" || a == "out" || a == "addfact" || a == "mark", bind: b2}
							if a == "addfact" {
								e.made = c04MadeId(r.Id, k, b2)
							}
							if a == "out" {
								e.out = fmt.Sprintf("%s/%d", r.Id, k)
							}
							expected[ex] = e
						}
						e.count++
						total++
						if !e.ok && r.Serial {
							serialFailure = true
						}
					}
				}
			}
			if len(r.Actions) > 1 {
				dims["actions"] = true
			}
			if r.Serial {
				anySerial = true
			}
		}
		if nDispatched > 1 {
			dims["rules"] = true
		}
		if total >= 4 && len(dims) >= 2 {
			o.NonTrivial = true
		}
		if serialFailure {
			o.Label("serial-failure")
		}
		_ = anySerial

		ctx := newCtx()
		ctx.SetLoc(w.locs["L"])
		outs := make(chan interface{}, 1024)
		ctx.AddProp("out", outs)
		work, cond := w.locs["L"].ProcessEvent(ctx, core.Map(event))
		when := fmt.Sprintf("[%s] case %s", kind, vlib.JSON(c))
		if _, marked := event["mark"]; marked || len(event["e"].(A)) != len(c.E) {
			o.Fail("CALLERS_EVENT_MODIFIED", "%s: after ProcessEvent the caller's event is %s", when, vlib.JSON(event))
			return o
		}
		if work == nil {
			o.Fail("NO_WORK", "%s: ProcessEvent returned no work tree (%v)", when, cond)
			return o
		}
		// leaves
		got := map[c04Exec]int{}
		var gotValues, wantValues []string
		for _, er := range work.Children {
			for _, erc := range er.Children {
				for _, era := range erc.Children {
					b := refmatch.Bindings{}
					for k, v := range era.Bindings {
						b[k] = v
					}
					for _, s := range specials {
						delete(b, s)
					}
					code, _ := era.Act.Code.(string)
					ex := c04Exec{er.Rule.Id, refmatch.Key(b), code}
					got[ex]++
					e := expected[ex]
					if e == nil {
						o.Fail("UNEXPECTED_EXECUTION", "%s: the tree has an execution of rule %s with bindings %s code %q that was not expected", when, ex.rule, ex.bkey, ex.code)
						continue
					}
					executed := era.Disposition != nil
					if !executed {
						if !serialFailure {
							o.Fail("NOT_EXECUTED", "%s: execution %v was never attempted", when, ex)
						}
						continue
					}
					complete := era.Disposition == core.Complete || (era.Disposition != nil && era.Disposition.Msg == "complete")
					if e.ok != complete {
						o.Fail("WRONG_DISPOSITION", "%s: execution %v has disposition %v, expected success=%v", when, ex, era.Disposition, e.ok)
						continue
					}
					if !e.ok {
						if era.Value != nil {
							o.Fail("FAILED_ACTION_HAS_VALUE", "%s: failed execution %v carries value %v", when, ex, era.Value)
						}
						continue
					}
					// the value shows what the action saw
					want := M{"r": ex.rule, "want": ex.rule, "loc": "L", "ev": event, "k": float64(strings.Count(code[:strings.Index(code, "want")], "") * 0)}
					_ = want
					v, ok := refmatch.Canon(era.Value).(map[string]interface{})
					if !ok {
						o.Fail("WRONG_VALUE", "%s: execution %v returned %v", when, ex, era.Value)
						continue
					}
					if v["r"] != ex.rule || v["want"] != ex.rule {
						o.Fail("WRONG_RULEID_VISIBLE", "%s: execution %v saw ruleId %v", when, ex, v["r"])
					}
					if v["loc"] != "L" {
						o.Fail("WRONG_LOCATION_VISIBLE", "%s: execution %v saw location %v", when, ex, v["loc"])
					}
					wantEv := interface{}(event)
					if strings.HasPrefix(code, "event.mark") {
						// its own scribbles, and nobody else's
						wantEv = M{"t": "go", "e": A(c.E), "mark": 1.0}
						o.Label("action-writes-to-its-event")
					}
					if !refmatch.Equal(refmatch.Canon(v["ev"]), refmatch.Canon(wantEv), false) {
						o.Fail("WRONG_EVENT_VISIBLE", "%s: execution %v saw event %s, expected %s", when, ex, vlib.JSON(v["ev"]), vlib.JSON(wantEv))
					}
					for _, name := range []string{"x", "y", "z"} {
						wantv, bound := e.bind["?"+name]
						if !bound {
							wantv = "__unbound__"
						}
						if !refmatch.Equal(v[name], wantv, false) {
							o.Fail("WRONG_BINDING_VISIBLE", "%s: execution %v saw %s = %v, expected %v", when, ex, name, v[name], wantv)
						}
					}
				}
			}
		}
		for _, v := range work.Values {
			gotValues = append(gotValues, vlib.JSON(refmatch.Canon(v)))
		}
		sort.Strings(gotValues)
		if o.Failed() {
			return o
		}
		if !serialFailure {
			if cond != nil {
				// a failing action of a concurrent rule is reported on
				// its node only; the walk itself completes
				o.Fail("WALK_FAILED", "%s: ProcessEvent returned condition %v although no serial action failed", when, cond)
				return o
			}
			for ex, e := range expected {
				if got[ex] != e.count {
					o.Fail("EXECUTION_COUNT", "%s: execution %v appears %d times in the tree, expected %d", when, ex, got[ex], e.count)
				}
			}
			// values: exactly one per successful execution; compare
			// with the values found on the leaves
			for _, er := range work.Children {
				for _, erc := range er.Children {
					for _, era := range erc.Children {
						if era.Disposition == core.Complete {
							wantValues = append(wantValues, vlib.JSON(refmatch.Canon(era.Value)))
						}
					}
				}
			}
			sort.Strings(wantValues)
			if strings.Join(gotValues, "|") != strings.Join(wantValues, "|") {
				o.Fail("VALUES_MISMATCH", "%s: values %v; leaves report %v", when, gotValues, wantValues)
			}
			nOK := 0
			var wantOuts []string
			for _, e := range expected {
				if e.ok {
					nOK += e.count
				}
				for i := 0; i < e.count && e.out != ""; i++ {
					wantOuts = append(wantOuts, e.out)
				}
			}
			if len(work.Values) != nOK {
				o.Fail("VALUES_COUNT", "%s: %d values, expected %d successful executions", when, len(work.Values), nOK)
			}
			close(outs)
			var gotOuts []string
			for x := range outs {
				gotOuts = append(gotOuts, fmt.Sprint(x))
			}
			sort.Strings(gotOuts)
			sort.Strings(wantOuts)
			if strings.Join(gotOuts, "|") != strings.Join(wantOuts, "|") {
				o.Fail("OUT_MISMATCH", "%s: Env.out received %v, expected %v", when, gotOuts, wantOuts)
			}
			// the facts written by the actions: exactly one per execution
			wantMade := map[string]bool{}
			for _, e := range expected {
				if e.made != "" {
					wantMade[e.made] = true
				}
			}
			srs, err := w.locs["L"].SearchFacts(newCtx(), core.Map{"made": "?m"}, false)
			if err != nil {
				o.Fail("SEARCH_ERROR", "%s: searching for the facts written by the actions failed: %v", when, err)
				return o
			}
			gotMade := map[string]bool{}
			for _, sr := range srs.Found {
				gotMade[sr.Id] = true
				if !wantMade[sr.Id] {
					o.Fail("UNEXPECTED_ACTION_WRITE", "%s: fact %q was written by an action execution that was not expected", when, sr.Id)
				}
			}
			for id := range wantMade {
				if !gotMade[id] {
					o.Fail("ACTION_WRITE_MISSING", "%s: the action execution that writes fact %q completed, but the fact is not in the location (found %d such facts)", when, id, len(gotMade))
				}
			}
			if len(wantMade) >= 2 {
				o.Label("actions-write-facts")
			}
		} else {
			// serial failure: executed set is a subset, no duplicates
			for ex, n := range got {
				if e := expected[ex]; e != nil && n > e.count {
					o.Fail("EXECUTION_DUPLICATED", "%s: execution %v appears %d times, expected at most %d", when, ex, n, e.count)
				}
			}
		}
		if o.Failed() {
			return o
		}
	}
	return o
}

func TestC04(t *testing.T) {
	vlib.Check(t, "C04", genC04, runC04)
}
