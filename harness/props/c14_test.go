package props

// C14 — script execution is contained (real time).
//
// Scripts from five families -- value (expected value known to the
// generator), throwing, syntactically invalid, non-terminating,
// slow-but-finishing -- under each timeout source (location control, system
// default, timeouts disabled for terminating scripts only) and in each
// placement (Location.RunJavascript, rule condition, rule action).

import (
	"encoding/base64"
	"fmt"
	"strings"
	"testing"
	"time"

	"github.com/Comcast/rulio/core"
	"pgregory.net/rapid"

	"verif/harness/refmatch"
	"verif/harness/vlib"
)

type c14Case struct {
	Family    string  `json:"family"`    // value | throw | syntax | loop | slow | recursion
	Variant   int     `json:"variant"`   // which template
	// Encoding (action placement): the action's opts.encoding: absent,
	// "none", "empty" (the empty string) or "base64".
	Encoding string `json:"encoding,omitempty"`
	Placement string  `json:"placement"` // run | action | condition
	Source    string  `json:"source"`    // control | default | off
	LimitMs   int     `json:"limitMs"`
	X         float64 `json:"x"`
	S         string  `json:"s"`
}

func genC14(t *rapid.T) c14Case {
	var c c14Case
	c.Family = rapid.SampledFrom([]string{"value", "value", "throw", "syntax", "loop", "loop", "slow", "recursion", "cyclic", "chain"}).Draw(t, "family")
	c.Variant = rapid.IntRange(0, 7).Draw(t, "variant")
	c.Encoding = rapid.SampledFrom([]string{"", "", "none", "empty", "base64"}).Draw(t, "encoding")
	c.Placement = rapid.SampledFrom([]string{"run", "action", "condition", "condition-not"}).Draw(t, "placement")
	c.Source = rapid.SampledFrom([]string{"control", "control", "default", "off", "locoff"}).Draw(t, "source")
	if c.Family == "loop" && (c.Source == "off" || c.Source == "locoff") {
		c.Source = "control"
	}
	c.LimitMs = rapid.SampledFrom([]int{20, 50, 100, 200}).Draw(t, "limit")
	if c.Family == "recursion" {
		// runaway recursion under short limits, under the shipped default
		// of 60 s and with timeouts disabled: the timeout cannot be what
		// saves the process
		c.LimitMs = rapid.SampledFrom([]int{20, 200, 60000}).Draw(t, "reclimit")
	}
	c.X = float64(rapid.IntRange(-3, 9).Draw(t, "x"))
	c.S = rapid.SampledFrom([]string{"a", "bc", ""}).Draw(t, "s")
	return c
}

// script returns the code and, for the value family, the expected value.
func (c c14Case) script() (code string, want interface{}) {
	switch c.Family {
	case "value":
		if c.Encoding == "base64" || c.Encoding == "none" {
			// (these cases double as: values in which one object occurs
			// twice - shared, not circular)
			switch c.Variant % 3 {
			case 0:
				return "var a = {n: x}; ({p: a, q: a})", M{"p": M{"n": c.X}, "q": M{"n": c.X}}
			case 1:
				return "var a = [x, s]; [a, a]", A{A{c.X, c.S}, A{c.X, c.S}}
			default:
				return "var leaf = {s: s}; var l = {leaf: leaf}; var r = {leaf: leaf}; ({l: l, r: r})", M{"l": M{"leaf": M{"s": c.S}}, "r": M{"leaf": M{"s": c.S}}}
			}
		}
		switch c.Variant % 6 {
		case 0:
			return "x + 1", c.X + 1
		case 1:
			return "s + 'z'", c.S + "z"
		case 2:
			return "({a: x, b: s})", M{"a": c.X, "b": c.S}
		case 3:
			return "[x, x * 2]", A{c.X, c.X * 2}
		case 4:
			return "var t = x * 3; t + 1", c.X*3 + 1
		default:
			return "typeof notbound === 'undefined' && typeof x === 'number' && typeof s === 'string'", true
		}
	case "throw":
		switch c.Variant % 6 {
		case 3:
			// thrown values that cannot be turned into a message
			return "throw {toString: function() { throw 2; }}", nil
		case 4:
			return "throw {toString: function() { return {}; }}", nil
		case 5:
			// a result whose property throws when it is read
			return "var o = {}; Object.defineProperty(o, 'p', {enumerable: true, get: function() { throw new Error('getter'); }}); o", nil
		case 0:
			return "throw new Error('boom')", nil
		case 1:
			return "notDefinedAnywhere.field", nil
		default:
			return "var o = null; o.f()", nil
		}
	case "syntax":
		switch c.Variant % 3 {
		case 0:
			return "var = = 3", nil
		case 1:
			return "(((", nil
		default:
			return "function (", nil
		}
	case "loop":
		switch c.Variant % 6 {
		case 4:
			// past the limit inside a built-in function (one long nap)
			// (the nap is the script's last step: no interpreter step
			// follows at which an interrupt could be noticed)
			return fmt.Sprintf("var y = x + 2; Env.sleep(%d)", int64(c.LimitMs)*1e6*4), nil
		case 5:
			// ... and in many short ones
			return fmt.Sprintf("for (var i = 0; i < 400; i++) { Env.sleep(%d); } x + 2", int64(c.LimitMs)*1e6/20+1), nil
		case 0:
			return "while (true) {}", nil
		case 1:
			return "var i = 0; for (;;) { i++; }", nil
		case 2:
			return "var q = 1; do { q = -q; } while (q != 0)", nil
		default:
			return "var n = 0; while (n >= 0) { n = (n + 1) % 1000; }", nil
		}
	case "chain":
		// rule chaining: the script's value is what processing another
		// event returned (a Go value with back-pointers in it when that
		// event found a rule)
		switch c.Variant % 3 {
		case 0:
			return "Env.ProcessEvent({chain: 'v'})", nil
		case 1:
			return "Env.ProcessEvent({nobodyListens: 'v'})", nil
		default:
			return "var w = Env.ProcessEvent({chain: 'v'}); ({inner: w, n: 1})", nil
		}
	case "cyclic":
		// a value (or an argument of a location function) that refers
		// to itself: it has no JSON form, so it cannot be a result; what
		// matters is that the attempt ends (as an error, most likely)
		switch c.Variant % 8 {
		case 6:
			// a function is an object, too
			return "var f = function() {}; f.me = f; f", nil
		case 7:
			return "var f = function() {}; f.o = {}; f.o.self = f.o; ({g: f})", nil
		case 4:
			// a cycle that the script's own JSON would not notice
			return "var o = {}; o.self = o; o.toJSON = function() { return 1; }; o", nil
		case 5:
			return "JSON = {stringify: function() { return '1'; }}; var o = {}; o.self = o; o", nil
		case 0:
			return "var o = {}; o.self = o; o", nil
		case 1:
			return "var a = [1]; a.push(a); a", nil
		case 2:
			return "var o = {k: 'v'}; o.list = [{back: o}]; Env.AddFact('cyc', o); 'stored'", nil
		default:
			return "var p = {}; var q = {p: p}; p.q = q; ({wrapped: p})", nil
		}
	case "recursion":
		switch c.Variant % 3 {
		case 0:
			return "function f(n) { return f(n + 1) + 1; } f(0)", nil
		case 1:
			return "function a(n) { return b(n + 1); } function b(n) { return a(n) + x; } a(0)", nil
		default:
			return "var o = {}; o.m = function() { return [1].map(function(e) { return o.m(); }); }; o.m()", nil
		}
	default: // slow but finishing well within the limit
		if c.Source == "off" || c.Source == "locoff" {
			// timeouts are disabled (globally / for this location): a
			// script may run longer than the (system default) limit
			return fmt.Sprintf("var t0 = Date.now(); while (Date.now() - t0 < %d) {} x + 3", 3*c.LimitMs), c.X + 3
		}
		switch c.Variant % 2 {
		case 0:
			return fmt.Sprintf("Env.sleep(%d); x + 2", int64(c.LimitMs)*1e6/4), c.X + 2
		default:
			return "var k = 0; for (var i = 0; i < 2000; i++) { k += i; } k + x", 1999000 + c.X
		}
	}
}

func runC14(c c14Case) *vlib.Outcome {
	o := &vlib.Outcome{}
	if c.LimitMs <= 0 || (c.LimitMs > 1000 && c.Family != "recursion") || c.LimitMs > 60000 {
		o.Discard = true
		return o
	}
	code, want := c.script()
	limit := time.Duration(c.LimitMs) * time.Millisecond
	if c.Family != "loop" && c.Family != "recursion" && c.Source != "off" && c.Source != "locoff" {
		// Scripts that are expected to finish get a generous limit: on a
		// busy machine a few milliseconds of script can take much longer,
		// and being stopped then is not a defect.  (The short limits are
		// for the scripts that are expected to be stopped.)
		limit = 5 * time.Second
	}
	desc := fmt.Sprintf("%s script %q as %s with timeout %v from %s", c.Family, code, c.Placement, limit, c.Source)
	if c.Family == "loop" || c.Family == "slow" || c.Family == "value" || c.Family == "recursion" || c.Family == "cyclic" {
		o.NonTrivial = true
	}

	// timeout configuration (process-global parameters are restored)
	saved := *core.SystemParameters
	defer func() { *core.SystemParameters = saved }()
	w := newWorld("indexed", nil, o)
	switch c.Source {
	case "control":
		w.ctrl.JavascriptTimeout = core.Duration(limit)
		core.SystemParameters.JavascriptTimeouts = true
	case "default":
		w.ctrl.JavascriptTimeout = 0
		core.SystemParameters.JavascriptTimeouts = true
		core.SystemParameters.DefaultJavascriptTimeout = limit
	case "off":
		core.SystemParameters.JavascriptTimeouts = false
	case "locoff":
		// a negative location timeout means "no timeout" for this
		// location although the system has a default
		w.ctrl.JavascriptTimeout = core.Duration(-1)
		core.SystemParameters.JavascriptTimeouts = true
		core.SystemParameters.DefaultJavascriptTimeout = limit
	}
	if c.Source == "off" {
		// (a default that would stop the script if timeouts were on)
		core.SystemParameters.DefaultJavascriptTimeout = limit
	}
	loc, err := w.open("L")
	if err != nil {
		o.Fail("OPEN", "%v", err)
		return o
	}
	if c.Family == "chain" {
		if _, err := loc.AddRule(newCtx(), "chained", core.Map(mkRule(M{"chain": "?c"}, "chained ran"))); err != nil {
			o.Fail("OPEN", "%v", err)
			return o
		}
		o.NonTrivial = true
	}

	type result struct {
		value    interface{}
		err      error
		complete bool // placement action/condition: node disposition
		ranAfter bool // condition placement: did the action run
	}
	var res result
	call := func() {
		switch c.Placement {
		case "run":
			ctx := newCtx()
			ctx.SetLoc(loc)
			bs := core.Bindings{"x": c.X, "s": c.S}
			res.value, res.err = loc.RunJavascript(ctx, code, nil, &bs, nil)
			res.complete = res.err == nil
		case "action":
			action := M{"code": code}
			switch c.Encoding {
			case "none":
				action["opts"] = M{"encoding": "none"}
			case "empty":
				action["opts"] = M{"encoding": ""}
			case "base64":
				action = M{"code": base64.StdEncoding.EncodeToString([]byte(code)), "opts": M{"encoding": "base64"}}
			}
			rule := M{"when": M{"pattern": M{"x": "?x", "s": "?s"}}, "action": action}
			if _, err := loc.AddRule(newCtx(), "r", core.Map(rule)); err != nil {
				res.err = fmt.Errorf("AddRule: %v", err)
				return
			}
			ctx := newCtx()
			ctx.SetLoc(loc)
			work, cond := loc.ProcessEvent(ctx, core.Map{"x": c.X, "s": c.S})
			if cond != nil {
				res.err = fmt.Errorf("%s", cond.Msg)
			}
			if work != nil && len(work.Children) == 1 && len(work.Children[0].Children) == 1 && len(work.Children[0].Children[0].Children) == 1 {
				era := work.Children[0].Children[0].Children[0]
				res.complete = era.Disposition == core.Complete
				res.value = era.Value
				if era.Disposition != nil && era.Disposition != core.Complete {
					res.err = fmt.Errorf("%s", era.Disposition.Msg)
				}
			} else if res.err == nil {
				res.err = fmt.Errorf("unexpected work tree")
			}
		case "condition", "condition-not":
			var cq interface{} = M{"code": code}
			if c.Placement == "condition-not" {
				cq = M{"not": M{"code": code}}
			}
			rule := M{"when": M{"pattern": M{"x": "?x", "s": "?s"}}, "condition": cq, "action": M{"code": "'ran'"}}
			if _, err := loc.AddRule(newCtx(), "r", core.Map(rule)); err != nil {
				res.err = fmt.Errorf("AddRule: %v", err)
				return
			}
			ctx := newCtx()
			ctx.SetLoc(loc)
			work, cond := loc.ProcessEvent(ctx, core.Map{"x": c.X, "s": c.S})
			if cond != nil {
				res.err = fmt.Errorf("%s", cond.Msg)
			}
			if work != nil && len(work.Children) == 1 && len(work.Children[0].Children) == 1 {
				erc := work.Children[0].Children[0]
				res.complete = erc.Disposition == core.Complete
				for _, v := range work.Values {
					if v == "ran" {
						res.ranAfter = true
					}
				}
			} else if res.err == nil {
				res.err = fmt.Errorf("unexpected work tree")
			}
		}
	}
	done := make(chan struct{})
	start := time.Now()
	go func() {
		defer close(done)
		call()
	}()
	hard := limit + 5*time.Second
	if c.Source == "off" || c.Source == "locoff" {
		hard = 10 * time.Second
	}
	if c.Family == "recursion" && hard > 20*time.Second {
		// runaway recursion ends in an error of its own (or kills the
		// process, which the runner sees) long before a 60 s limit
		hard = 20 * time.Second
	}
	select {
	case <-done:
	case <-time.After(hard):
		o.Fail("SCRIPT_NOT_CONTAINED", "%s: the caller did not get control back within %v", desc, hard)
		return o
	}
	elapsed := time.Since(start)

	switch c.Family {
	case "loop":
		if res.err == nil || res.complete {
			o.Fail("TIMEOUT_REPORTED_AS_SUCCESS", "%s: a script stopped by the timeout was reported as success (value %v, error %v)", desc, res.value, res.err)
		}
		if strings.HasPrefix(c.Placement, "condition") && res.ranAfter {
			o.Fail("ACTION_RAN_AFTER_FAILED_CONDITION", "%s: the action ran although the condition script did not finish", desc)
		}
		if elapsed < limit {
			o.Fail("STOPPED_BEFORE_LIMIT", "%s: stopped after %v, before the limit", desc, elapsed)
		}
		if elapsed > limit+time.Second {
			o.Label("slow-stop>1s")
		}
	case "chain":
		// the script finishes well within its limit: it succeeds
		if res.err != nil || !res.complete {
			o.Fail("GOOD_SCRIPT_FAILED", "%s: a script whose value is the result of Env.ProcessEvent failed: %v (after %v)", desc, res.err, elapsed)
		}
		if strings.HasPrefix(c.Placement, "condition") && c.Placement == "condition" && !res.ranAfter {
			o.Fail("CONDITION_VALUE", "%s: the condition's value is an object (truthy) but the action did not run", desc)
		}
		o.Label("chained-event")
	case "cyclic":
		// Nothing to compare: the call came back (the hard bound above)
		// and the process is still there.  A cyclic value reported as a
		// successful result would be odd but is not excluded.
		o.Label("cyclic-value")
	case "recursion":
		// stopped by the timeout or by an error of its own, whichever
		// comes first: an error on its node either way, and the process
		// is still there
		if res.err == nil || res.complete {
			o.Fail("ERROR_REPORTED_AS_SUCCESS", "%s: runaway recursion was reported as success (value %v, complete %v)", desc, res.value, res.complete)
		}
		if strings.HasPrefix(c.Placement, "condition") && res.ranAfter {
			o.Fail("ACTION_RAN_AFTER_FAILED_CONDITION", "%s: the action ran although the condition script failed", desc)
		}
		if limit >= time.Second {
			o.Label("recursion-under-long-limit")
		}
	case "throw", "syntax":
		if c.Family == "syntax" && strings.HasPrefix(c.Placement, "condition") {
			// a condition is compiled when the rule is added: the
			// rule is rejected there
			if res.err == nil {
				o.Fail("ERROR_REPORTED_AS_SUCCESS", "%s: reported as success", desc)
			}
			break
		}
		if res.err == nil || res.complete {
			o.Fail("ERROR_REPORTED_AS_SUCCESS", "%s: a failing script was reported as success (value %v, complete %v)", desc, res.value, res.complete)
		}
		if strings.HasPrefix(c.Placement, "condition") && res.ranAfter {
			o.Fail("ACTION_RAN_AFTER_FAILED_CONDITION", "%s: the action ran although the condition script failed", desc)
		}
	default: // value, slow
		if res.err != nil || !res.complete {
			if c.Source != "off" && c.Source != "locoff" && elapsed >= limit/2 {
				// (a busy machine: the script may really have met
				// its limit; no verdict)
				o.Discard = true
				return o
			}
			o.Fail("GOOD_SCRIPT_FAILED", "%s: a script that finishes within the limit failed: %v (after %v)", desc, res.err, elapsed)
			break
		}
		if strings.HasPrefix(c.Placement, "condition") {
			truthy := want != nil && want != false
			if c.Placement == "condition-not" {
				truthy = !truthy
			}
			if res.ranAfter != truthy {
				o.Fail("CONDITION_VALUE", "%s: condition value %v but action ran = %v", desc, want, res.ranAfter)
			}
			break
		}
		if !refmatch.Equal(refmatch.Canon(res.value), refmatch.Canon(want), true) {
			o.Fail("WRONG_VALUE", "%s: value %s, expected %s", desc, vlib.JSON(res.value), vlib.JSON(want))
		}
	}
	_ = strings.Contains
	return o
}

func TestC14(t *testing.T) {
	vlib.Check(t, "C14", genC14, runC14)
}
