package props

// C20 — configured limits are enforced and recover.
//
//  capacity (real time): add/remove/overwrite histories around MaxFacts
//  through AddFact, AddRule and action-issued Env.AddFact;
//  breaker, throttle (virtual clock): generated arrival patterns and bursts.

import (
	"errors"
	"fmt"
	"io"
	"net/http"
	"sort"
	"strings"
	"sync"
	"sync/atomic"
	"testing"
	"time"

	"github.com/Comcast/rulio/core"
	"github.com/Comcast/rulio/sys"
	"pgregory.net/rapid"

	"verif/harness/gen"
	"verif/harness/vlib"
)

// ---------------------------------------------------------------------
// capacity

type c20CapCase struct {
	Kind string `json:"kind"`
	Max  int    `json:"max"`
	Ops  []op   `json:"ops"`
	// Sys: 0 = a location of its own whose control carries the maximum;
	// 1 = served by a sys.System whose default location control carries it;
	// 2 = served by a sys.System that puts the location into a group whose
	// control carries it (the default control allows far more).
	Sys int `json:"sys,omitempty"`
}

func genC20Cap(t *rapid.T) c20CapCase {
	var c c20CapCase
	c.Kind = rapid.SampledFrom([]string{"indexed", "linear"}).Draw(t, "kind")
	c.Max = rapid.IntRange(1, 6).Draw(t, "max")
	c.Sys = rapid.SampledFrom([]int{0, 0, 1, 2}).Draw(t, "sys")
	n := rapid.IntRange(3, 20).Draw(t, "nops")
	ids := []string{"", "", "a", "b", "c", "d", "e", "f", "g"}
	for i := 0; i < n; i++ {
		l := fmt.Sprintf("op%d", i)
		switch rapid.SampledFrom([]string{"addFact", "addFact", "addFact", "addRule", "rem", "rem", "actionAdd", "reload"}).Draw(t, l+".kind") {
		case "addFact":
			c.Ops = append(c.Ops, op{K: "addFact", Id: rapid.SampledFrom(ids).Draw(t, l+".id"), Doc: M{"v": rapid.SampledFrom([]string{"x", "y"}).Draw(t, l+".v")}})
		case "addRule":
			c.Ops = append(c.Ops, op{K: "addRule", Id: rapid.SampledFrom(ids).Draw(t, l+".id"), Doc: mkRule(M{"go": rapid.SampledFrom([]string{"1", "2"}).Draw(t, l+".w")}, fmt.Sprintf("t%d", i))})
		case "rem":
			c.Ops = append(c.Ops, op{K: "remFact", Id: rapid.SampledFrom(ids[2:]).Draw(t, l+".id")})
		case "actionAdd":
			c.Ops = append(c.Ops, op{K: "actionAdd", Id: rapid.SampledFrom(ids[2:]).Draw(t, l+".id")})
		case "reload":
			c.Ops = append(c.Ops, op{K: "reload"})
		}
	}
	return c
}

func snapshotLoc(w *world, name string) string {
	keys, _ := w.storageKeys(name)
	ks := mapKeys(keys)
	var sb strings.Builder
	for _, k := range ks {
		sb.WriteString(k + "=" + keys[k] + ";")
	}
	ids := append([]string{"a", "b", "c", "d", "e", "f", "g", "adder"}, ks...)
	obs := observe(w.locs[name], ids, []M{{"v": "?v"}, {"rule": "?r"}}, nil)
	oks := make([]string, 0, len(obs))
	for k := range obs {
		oks = append(oks, k)
	}
	sort.Strings(oks)
	for _, k := range oks {
		sb.WriteString(k + "=" + obs[k] + ";")
	}
	return sb.String()
}

func runC20Cap(c c20CapCase) *vlib.Outcome {
	o := &vlib.Outcome{}
	if c.Max < 1 || (c.Kind != "indexed" && c.Kind != "linear") {
		o.Discard = true
		return o
	}
	w := newWorld(c.Kind, nil, o)
	w.ctrl.MaxFacts = c.Max
	if c.Sys > 0 {
		conf := sys.ExampleConfig()
		conf.UnindexedState = c.Kind == "linear"
		cont := sys.ExampleSystemControl()
		cont.Timing = false
		cont.LocationTTL = sys.Forever
		cont.DefaultLocControl = w.ctrl
		if c.Sys == 2 {
			roomy := quietControl()
			roomy.MaxFacts = 1000
			cont.DefaultLocControl = roomy
			cont.LocToGroup = func(loc string) string { return "small" }
			cont.GroupControls = map[string]*core.Control{"small": w.ctrl}
		}
		s, err := sys.NewSystem(newCtx(), *conf, *cont, nullCron{})
		if err != nil {
			o.Fail("NEWSYSTEM", "%v", err)
			return o
		}
		w.engine = s
		o.Label(fmt.Sprintf("sys-%d", c.Sys))
	}
	if _, err := w.open("L"); err != nil {
		o.Fail("OPEN", "%v", err)
		return o
	}
	if w.engine != nil {
		// (the System creates its storage with the first location)
		if st, err := w.engine.PeekStorage(newCtx()); err == nil && st != nil {
			w.store = st
		}
	}
	hitCap, freed := false, false
	for i, x := range c.Ops {
		when := fmt.Sprintf("[%s max=%d] op %d %s", c.Kind, c.Max, i, vlib.JSON(x))
		before, _ := w.locs["L"].StateSize(newCtx())
		snap := snapshotLoc(w, "L")
		var err error
		switch x.K {
		case "addFact":
			err = w.addFact("L", x.Id, x.Doc).Err
		case "addRule":
			err = w.addRule("L", x.Id, x.Doc).Err
		case "remFact":
			err = w.remFact("L", x.Id).Err
			if hitCap && err == nil {
				freed = true
			}
		case "reload":
			err = w.reload("L")
		case "actionAdd":
			// a rule whose action adds a fact; evaluated through the
			// embedded-rule event so that it does not occupy a slot
			rule := M{"when": M{"pattern": M{"add": "?id"}}, "action": M{"code": "Env.AddFact(id, {v: 'fromAction'}); 'added'"}}
			actx := newCtx()
			actx.SetLoc(w.locs["L"])
			work, cond := w.locs["L"].ProcessEvent(actx, core.Map{"add": x.Id, "evaluate!": rule})
			added := false
			if cond == nil && work != nil {
				for _, v := range work.Values {
					if v == "added" {
						added = true
					}
				}
			}
			if added {
				w.model["L"].put(x.Id, modelFactItem(M{"v": "fromAction"}))
			} else {
				err = errors.New("action did not add (" + dispositions(work) + ")")
			}
		}
		after, _ := w.locs["L"].StateSize(newCtx())
		if after > c.Max {
			o.Fail("OVER_CAPACITY", "%s: the location holds %d facts+rules, maximum is %d", when, after, c.Max)
		}
		if after > before+1 {
			o.Fail("SIZE_JUMP", "%s: size went from %d to %d", when, before, after)
		}
		isAdd := x.K == "addFact" || x.K == "addRule" || x.K == "actionAdd"
		if isAdd && err == nil && before >= c.Max {
			o.Fail("ADD_AT_CAPACITY_ACCEPTED", "%s: add succeeded although the location was at capacity (%d of %d)", when, before, c.Max)
		}
		if isAdd && err != nil && (strings.Contains(err.Error(), "capacity") || before >= c.Max) {
			hitCap = true
			o.Label("capacity-refusal")
			if s2 := snapshotLoc(w, "L"); s2 != snap {
				o.Fail("REFUSED_ADD_SIDE_EFFECT", "%s: add refused (%v) but the location changed:\nbefore %s\nafter  %s", when, err, snap, s2)
			}
		} else if isAdd && err != nil {
			o.Fail("ADD_ERROR", "%s: add failed below capacity (%d of %d): %v", when, before, c.Max, err)
		}
		if o.Failed() {
			return o
		}
		w.checkAll("L", []string{"a", "b", "c", "d", "e", "f", "g"}, when)
		if o.Failed() {
			return o
		}
	}
	if hitCap && freed {
		o.NonTrivial = true
	}
	return o
}

func dispositions(work *core.FindRules) string {
	if work == nil {
		return "no work"
	}
	var acc []string
	if work.Disposition != nil {
		acc = append(acc, work.Disposition.Msg)
	}
	for _, er := range work.Children {
		for _, erc := range er.Children {
			for _, era := range erc.Children {
				if era.Disposition != nil {
					acc = append(acc, era.Disposition.Msg)
				}
			}
		}
	}
	return strings.Join(acc, " | ")
}

func TestC20Capacity(t *testing.T) {
	vlib.Check(t, "C20", genC20Cap, runC20Cap)
}

// ---------------------------------------------------------------------
// breaker (virtual clock)

type c20Arrival struct {
	Gap   int64 `json:"gap"`   // ns since the previous arrival
	Burst int   `json:"burst"` // concurrent callers at this instant
}

type c20BrkCase struct {
	Limit    int64        `json:"limit"`
	Interval int64        `json:"interval"` // ns
	Arrivals []c20Arrival `json:"arrivals"`
}

func genC20Brk(t *rapid.T) c20BrkCase {
	var c c20BrkCase
	c.Limit = int64(rapid.SampledFrom([]int{1, 2, 3, 4, 5, 5, 15, 25, 40}).Draw(t, "limit"))
	c.Interval = rapid.SampledFrom([]int64{100e6, 1e9, 10e9}).Draw(t, "interval")
	tick := c.Interval / 20
	gaps := []int64{0, 1, tick / 3, tick / 2, tick - 1, tick, tick + 1, 2 * tick, c.Interval / 2, c.Interval - tick, c.Interval - 1, c.Interval, c.Interval + 1, c.Interval + tick, c.Interval + tick + 1, 3 * c.Interval}
	n := rapid.IntRange(2, 60).Draw(t, "narrivals")
	// mode: mixed, or steady polling faster than a tick
	mode := rapid.SampledFrom([]string{"mixed", "mixed", "poll-fast", "poll-slow", "steady", "steady"}).Draw(t, "mode")
	if mode == "steady" {
		// one call every g, for two to three intervals: a rate below the
		// limit never fills the window, whatever g is relative to a tick
		g := rapid.SampledFrom([]int64{tick / 3, tick / 2, tick * 7 / 10, tick - 1, tick + 1, tick * 13 / 10, tick * 18 / 10, 2 * tick, 3 * tick}).Draw(t, "steady-gap")
		for i := int64(0); i*g < 3*c.Interval && i < 200; i++ {
			c.Arrivals = append(c.Arrivals, c20Arrival{g, 1})
		}
		return c
	}
	for i := 0; i < n; i++ {
		l := fmt.Sprintf("a%d", i)
		var g int64
		switch mode {
		case "poll-fast":
			g = rapid.SampledFrom([]int64{tick / 3, tick / 2, tick - 1}).Draw(t, l+".gap")
		case "poll-slow":
			g = rapid.SampledFrom([]int64{tick + 1, 2 * tick, 3 * tick}).Draw(t, l+".gap")
		default:
			g = rapid.SampledFrom(gaps).Draw(t, l+".gap")
		}
		b := 1
		if rapid.IntRange(0, 5).Draw(t, l+".burst?") == 0 {
			b = rapid.IntRange(2, 16).Draw(t, l+".burst")
		}
		c.Arrivals = append(c.Arrivals, c20Arrival{g, b})
	}
	if mode != "mixed" {
		// polling lasts long enough to see the window expire
		for i := 0; i < 70; i++ {
			c.Arrivals = append(c.Arrivals, c20Arrival{c.Arrivals[len(c.Arrivals)-1].Gap, 1})
		}
	}
	return c
}

func runC20Brk(c c20BrkCase) *vlib.Outcome {
	o := &vlib.Outcome{}
	if !vlib.Faketime {
		o.Fail("NEEDS_FAKETIME", "this check must be built with -tags faketime")
		return o
	}
	if c.Limit < 1 || c.Interval < 20 {
		o.Discard = true
		return o
	}
	b, err := core.NewOutboundBreaker(c.Limit, time.Duration(c.Interval))
	if err != nil {
		o.Fail("NEW", "%v", err)
		return o
	}
	tick := c.Interval / 20
	type call struct {
		t        int64
		admitted bool
	}
	var calls []call
	var mu sync.Mutex
	filled, polledThrough := false, false
	for _, a := range c.Arrivals {
		if a.Gap > 0 {
			time.Sleep(time.Duration(a.Gap))
		}
		now := time.Now().UnixNano()
		// recovery expectation, evaluated before the burst
		lastAdmitted := int64(-1)
		inWindow := 0
		for _, p := range calls {
			if p.admitted {
				if p.t > lastAdmitted {
					lastAdmitted = p.t
				}
				if p.t > now-c.Interval {
					inWindow++
				}
			}
		}
		mustAdmit := lastAdmitted < 0 || now-lastAdmitted >= c.Interval+tick
		// ... and whenever fewer than `limit` admitted calls are young
		// enough to count: a window kept in buckets of one tick may hold
		// a call for up to a tick longer than the interval (two ticks of
		// grace here)
		young := 0
		for _, p := range calls {
			if p.admitted && p.t > now-c.Interval-2*tick {
				young++
			}
		}
		agedOut := int64(young) < c.Limit
		if agedOut {
			mustAdmit = true
		}
		if int64(inWindow) >= c.Limit {
			filled = true
		}
		burst := a.Burst
		if burst < 1 {
			burst = 1
		}
		var wg sync.WaitGroup
		results := make([]bool, burst)
		for i := 0; i < burst; i++ {
			wg.Add(1)
			go func(i int) {
				defer wg.Done()
				ok, _ := b.Do(func() error { return nil })
				results[i] = ok
			}(i)
		}
		wg.Wait()
		nAdm := 0
		mu.Lock()
		for _, ok := range results {
			calls = append(calls, call{now, ok})
			if ok {
				nAdm++
			}
		}
		mu.Unlock()
		if mustAdmit && nAdm == 0 {
			o.Fail("BREAKER_STUCK_OPEN", "limit %d interval %v: a call at +%v was refused although only %d admitted calls are younger than interval + two ticks (the last admitted call was %v earlier); history %s",
				c.Limit, time.Duration(c.Interval), time.Duration(now-calls[0].t), young, time.Duration(now-lastAdmitted), vlib.JSON(c.Arrivals))
			return o
		}
		if mustAdmit && filled && lastAdmitted >= 0 {
			polledThrough = true
		}
	}
	// safety: no window of length interval ending at an admitted call holds
	// more than limit admitted calls
	for i, p := range calls {
		if !p.admitted {
			continue
		}
		n := 0
		for j := 0; j <= i; j++ {
			if calls[j].admitted && calls[j].t > p.t-c.Interval {
				n++
			}
		}
		// calls at the same instant later in the slice
		for j := i + 1; j < len(calls) && calls[j].t == p.t; j++ {
			if calls[j].admitted {
				n++
			}
		}
		if int64(n) > c.Limit {
			o.Fail("BREAKER_OVER_LIMIT", "limit %d interval %v: %d calls admitted within the window ending at +%v; arrivals %s",
				c.Limit, time.Duration(c.Interval), n, time.Duration(p.t-calls[0].t), vlib.JSON(c.Arrivals))
			return o
		}
	}
	if filled {
		o.Label("window-filled")
	}
	if polledThrough {
		o.Label("recovered-after-fill")
		o.NonTrivial = true
	}
	return o
}

func TestC20Breaker(t *testing.T) {
	vlib.Check(t, "C20", genC20Brk, runC20Brk)
}

// ---------------------------------------------------------------------
// throttle (virtual clock)

type c20ThrCase struct {
	Limit        int64   `json:"limit"`
	Interval     int64   `json:"interval"`
	Attempts     int     `json:"attempts"`
	Pause        int64   `json:"pause"`
	PendingLimit int     `json:"pendingLimit"`
	Starts       []int64 `json:"starts"` // gaps between submissions (ns); 0 = same instant
	Work         []int64 `json:"work"`   // virtual duration of each function
}

func genC20Thr(t *rapid.T) c20ThrCase {
	var c c20ThrCase
	c.Limit = int64(rapid.IntRange(1, 3).Draw(t, "limit"))
	c.Interval = rapid.SampledFrom([]int64{100e6, 1e9}).Draw(t, "interval")
	c.Attempts = rapid.IntRange(1, 5).Draw(t, "attempts")
	c.Pause = rapid.SampledFrom([]int64{1e6, c.Interval / 20, c.Interval / 2, c.Interval}).Draw(t, "pause")
	c.PendingLimit = rapid.IntRange(0, 4).Draw(t, "pendingLimit")
	n := rapid.IntRange(1, 12).Draw(t, "n")
	for i := 0; i < n; i++ {
		c.Starts = append(c.Starts, rapid.SampledFrom([]int64{0, 0, 1, 1e6, c.Interval / 3, c.Interval}).Draw(t, fmt.Sprintf("s%d", i)))
		c.Work = append(c.Work, rapid.SampledFrom([]int64{0, 0, 1e6, c.Interval / 2}).Draw(t, fmt.Sprintf("w%d", i)))
	}
	return c
}

func runC20Thr(c c20ThrCase) *vlib.Outcome {
	o := &vlib.Outcome{}
	if !vlib.Faketime {
		o.Fail("NEEDS_FAKETIME", "this check must be built with -tags faketime")
		return o
	}
	if c.Limit < 1 || c.Interval < 20 || c.Attempts < 1 || len(c.Starts) != len(c.Work) {
		o.Discard = true
		return o
	}
	b, _ := core.NewOutboundBreaker(c.Limit, time.Duration(c.Interval))
	th, _ := core.NewThrottle(c.Attempts, c.PendingLimit, time.Duration(c.Pause), b)
	n := len(c.Starts)
	runs := make([]int, n)
	rets := make([]error, n)
	var mu sync.Mutex
	maxPending := 0
	sample := func() {
		p, _ := th.Pending()
		mu.Lock()
		if p > maxPending {
			maxPending = p
		}
		mu.Unlock()
	}
	var wg sync.WaitGroup
	for i := 0; i < n; i++ {
		if c.Starts[i] > 0 {
			time.Sleep(time.Duration(c.Starts[i]))
		}
		wg.Add(1)
		go func(i int) {
			defer wg.Done()
			myErr := fmt.Errorf("result of %d", i)
			rets[i] = th.Submit(func() error {
				mu.Lock()
				runs[i]++
				mu.Unlock()
				sample()
				if c.Work[i] > 0 {
					time.Sleep(time.Duration(c.Work[i]))
				}
				sample()
				return myErr
			})
			sample()
		}(i)
		sample()
	}
	wg.Wait()
	overflow, exhausted, ran := 0, 0, 0
	for i := 0; i < n; i++ {
		if runs[i] > 1 {
			o.Fail("THROTTLE_RAN_TWICE", "submission %d ran %d times; case %s", i, runs[i], vlib.JSON(c))
		}
		switch {
		case runs[i] == 1:
			ran++
			if rets[i] == nil || rets[i].Error() != fmt.Sprintf("result of %d", i) {
				o.Fail("THROTTLE_WRONG_RESULT", "submission %d ran but Submit returned %v; case %s", i, rets[i], vlib.JSON(c))
			}
		case rets[i] == error(core.ThrottleOverflow):
			overflow++
		case rets[i] == error(core.ThrottleExhausted):
			exhausted++
		default:
			o.Fail("THROTTLE_WRONG_RESULT", "submission %d did not run but Submit returned %v; case %s", i, rets[i], vlib.JSON(c))
		}
	}
	if maxPending > c.PendingLimit+1 {
		o.Fail("THROTTLE_PENDING", "Pending() reached %d with pendingLimit %d; case %s", maxPending, c.PendingLimit, vlib.JSON(c))
	}
	if p, _ := th.Pending(); p != 0 {
		o.Fail("THROTTLE_PENDING_LEAK", "Pending() is %d after every submission returned; case %s", p, vlib.JSON(c))
	}
	if overflow > 0 {
		o.Label("overflow")
	}
	if exhausted > 0 {
		o.Label("exhausted")
	}
	if ran > 0 && (overflow > 0 || exhausted > 0) {
		o.NonTrivial = true
	}
	_ = gen.Keys
	return o
}

func TestC20Throttle(t *testing.T) {
	vlib.Check(t, "C20", genC20Thr, runC20Thr)
}

// ---------------------------------------------------------------------
// capacity under concurrent adders
//
// 2-8 clients add facts and rules with distinct ids to one location at the
// same time, around the capacity boundary (nothing is removed).  Whatever the
// schedule: the location never holds more than its maximum, no more adds
// succeed than there was room for, and a refused add leaves nothing behind.

type c20ccCase struct {
	Kind    string  `json:"kind"`
	Max     int     `json:"max"`
	Pre     int     `json:"pre"`     // facts stored beforehand
	Clients [][]int `json:"clients"` // per client: 0 = AddFact, 1 = AddRule
	Spin    []int   `json:"spin"`
	Noise   int     `json:"noise,omitempty"`
}

func genC20cc(t *rapid.T) c20ccCase {
	var c c20ccCase
	c.Kind = rapid.SampledFrom([]string{"indexed", "linear"}).Draw(t, "kind")
	c.Max = rapid.IntRange(1, 6).Draw(t, "max")
	c.Pre = rapid.IntRange(0, c.Max).Draw(t, "pre")
	n := rapid.IntRange(2, 8).Draw(t, "clients")
	for i := 0; i < n; i++ {
		m := rapid.IntRange(1, 3).Draw(t, fmt.Sprintf("c%d.n", i))
		var ops []int
		for j := 0; j < m; j++ {
			ops = append(ops, rapid.SampledFrom([]int{0, 0, 0, 1}).Draw(t, fmt.Sprintf("c%d.op%d", i, j)))
		}
		c.Clients = append(c.Clients, ops)
		c.Spin = append(c.Spin, rapid.SampledFrom([]int{0, 0, 10, 100, 1000}).Draw(t, fmt.Sprintf("spin%d", i)))
	}
	if rapid.IntRange(0, 3).Draw(t, "noise?") != 0 {
		c.Noise = rapid.IntRange(1, 1000).Draw(t, "noise")
	}
	return c
}

func runC20cc(c c20ccCase) *vlib.Outcome {
	o := &vlib.Outcome{}
	if c.Max < 1 || c.Max > 64 || c.Pre < 0 || c.Pre > c.Max || (c.Kind != "indexed" && c.Kind != "linear") || len(c.Clients) < 2 || len(c.Clients) > 32 || len(c.Spin) < len(c.Clients) {
		o.Discard = true
		return o
	}
	w := newWorld(c.Kind, nil, o)
	w.ctrl.MaxFacts = c.Max
	loc, err := w.open("L")
	if err != nil {
		o.Fail("OPEN", "%v", err)
		return o
	}
	for i := 0; i < c.Pre; i++ {
		if _, err := loc.AddFact(newCtx(), fmt.Sprintf("pre%d", i), core.Map{"pre": fmt.Sprint(i)}); err != nil {
			o.Fail("SETUP", "%v", err)
			return o
		}
	}
	if c.Noise > 0 {
		_, end := startNoise(c.Noise)
		defer end()
		o.Label("schedule-noise")
	}
	type res struct {
		id  string
		err error
	}
	results := make([][]res, len(c.Clients))
	var wg sync.WaitGroup
	start := make(chan struct{})
	total := 0
	for i := range c.Clients {
		total += len(c.Clients[i])
		wg.Add(1)
		go func(i int) {
			defer wg.Done()
			<-start
			x := 0
			for j := 0; j < c.Spin[i]; j++ {
				x += j
			}
			_ = x
			for j, k := range c.Clients[i] {
				id := fmt.Sprintf("c%d.%d", i, j)
				var err error
				if k == 1 {
					_, err = loc.AddRule(newCtx(), id, core.Map(mkRule(M{"a": "x"}, id)))
				} else {
					_, err = loc.AddFact(newCtx(), id, core.Map{"by": id})
				}
				results[i] = append(results[i], res{id, err})
			}
		}(i)
	}
	close(start)
	wg.Wait()
	room := c.Max - c.Pre
	if total > room {
		o.NonTrivial = true
	}
	when := fmt.Sprintf("[%s max=%d pre=%d] clients %v", c.Kind, c.Max, c.Pre, c.Clients)
	size, err := loc.StateSize(newCtx())
	if err != nil {
		o.Fail("SIZE", "%s: %v", when, err)
		return o
	}
	ok := 0
	for i := range results {
		for _, r := range results[i] {
			_, gerr := loc.GetFact(newCtx(), r.id)
			if r.err == nil {
				ok++
				if gerr != nil {
					o.Fail("ACKNOWLEDGED_WRITE_MISSING", "%s: the add of %s succeeded, and afterwards: %v", when, r.id, gerr)
					return o
				}
			} else if gerr == nil {
				o.Fail("REFUSED_ADD_LEFT_TRACE", "%s: the add of %s was refused (%v), and the item is there", when, r.id, r.err)
				return o
			}
		}
	}
	if size > c.Max || ok > room {
		o.Fail("CAPACITY_EXCEEDED", "%s: %d of %d concurrent adds succeeded where there was room for %d; the location holds %d items, its maximum is %d", when, ok, total, room, size, c.Max)
		return o
	}
	if total >= room && ok < room {
		// (no sequential order refuses an add while there is room)
		o.Fail("ADD_REFUSED_WITH_ROOM", "%s: only %d of %d concurrent adds succeeded although there was room for %d (the location holds %d items)", when, ok, total, room, size)
	}
	return o
}

func TestC20CapacityConcurrent(t *testing.T) {
	vlib.Check(t, "C20", genC20cc, runC20cc)
}

// ---------------------------------------------------------------------
// the breaker on the outbound HTTP path
//
// core.HTTPRequest.Do consults the breaker registered for its host.  A burst
// of concurrent requests (what the actions of one event, or of many, produce)
// must not get more requests out than the breaker's limit; the others are
// answered with status 430.  No network: the http.Client that core takes from
// its client cache is replaced by one whose transport counts the requests.

type c20hCase struct {
	Limit  int64 `json:"limit"`
	Bursts []int `json:"bursts"` // goroutines per burst (all within one interval)
	Spin   []int `json:"spin"`
}

func genC20h(t *rapid.T) c20hCase {
	var c c20hCase
	c.Limit = int64(rapid.IntRange(1, 5).Draw(t, "limit"))
	nb := rapid.IntRange(1, 3).Draw(t, "nbursts")
	for i := 0; i < nb; i++ {
		c.Bursts = append(c.Bursts, rapid.IntRange(2, 16).Draw(t, fmt.Sprintf("burst%d", i)))
	}
	for i := 0; i < 16; i++ {
		c.Spin = append(c.Spin, rapid.SampledFrom([]int{0, 0, 0, 10, 100, 1000}).Draw(t, fmt.Sprintf("spin%d", i)))
	}
	return c
}

type c20CountRT struct {
	mu sync.Mutex
	n  int
}

func (rt *c20CountRT) RoundTrip(req *http.Request) (*http.Response, error) {
	rt.mu.Lock()
	rt.n++
	rt.mu.Unlock()
	return &http.Response{StatusCode: 200, Status: "200 OK", Proto: "HTTP/1.1", ProtoMajor: 1, ProtoMinor: 1,
		Header: http.Header{}, Body: io.NopCloser(strings.NewReader("ok")), Request: req}, nil
}

var c20hSeq int64

func runC20h(c c20hCase) *vlib.Outcome {
	o := &vlib.Outcome{}
	if c.Limit < 1 || c.Limit > 100 || len(c.Bursts) < 1 || len(c.Bursts) > 8 || len(c.Spin) < 16 {
		o.Discard = true
		return o
	}
	// a long interval: every burst of the case falls into one window
	b, err := core.NewOutboundBreaker(c.Limit, time.Minute)
	if err != nil {
		o.Fail("NEW", "%v", err)
		return o
	}
	host := fmt.Sprintf("breaker%d.invalid", atomic.AddInt64(&c20hSeq, 1))
	core.HTTPBreakers[host] = b
	defer delete(core.HTTPBreakers, host)
	rt := &c20CountRT{}
	core.HTTPClientCache.Add(*core.NewHTTPClientSpec(), &http.Client{Transport: rt})
	defer core.HTTPClientCache.Add(*core.NewHTTPClientSpec(), &http.Client{})
	total, admitted, refused := 0, int64(0), int64(0)
	for _, n := range c.Bursts {
		if n < 1 || n > 16 {
			o.Discard = true
			return o
		}
		total += n
		var wg sync.WaitGroup
		start := make(chan struct{})
		for i := 0; i < n; i++ {
			wg.Add(1)
			go func(i int) {
				defer wg.Done()
				<-start
				x := 0
				for j := 0; j < c.Spin[i]; j++ {
					x += j
				}
				_ = x
				res, _ := core.NewHTTPRequest(newCtx(), "GET", "http://"+host+"/x", "").Do(newCtx())
				if res != nil && res.Status == 200 {
					atomic.AddInt64(&admitted, 1)
				} else if res != nil && res.Status == 430 {
					atomic.AddInt64(&refused, 1)
				}
			}(i)
		}
		close(start)
		wg.Wait()
	}
	rt.mu.Lock()
	out := rt.n
	rt.mu.Unlock()
	if int64(total) > c.Limit {
		o.NonTrivial = true
	}
	if int64(out) > c.Limit {
		o.Fail("BREAKER_LIMIT_EXCEEDED", "limit %d per minute, bursts %v of concurrent HTTP requests to one host: %d requests went out (%d answered 200, %d answered 430)", c.Limit, c.Bursts, out, admitted, refused)
		return o
	}
	want := int64(total)
	if want > c.Limit {
		want = c.Limit
	}
	if int64(out) < want {
		o.Fail("BREAKER_REFUSED_BELOW_LIMIT", "limit %d per minute, bursts %v: only %d requests went out", c.Limit, c.Bursts, out)
	}
	return o
}

func TestC20HTTPBreaker(t *testing.T) {
	vlib.Check(t, "C20", genC20h, runC20h)
}
