package props

// C17 — the location cache is transparent.
//
// Part 1: a generated request history over several locations is run on one
// sys.System per cache configuration (TTL never / 1 ms / forever x existence
// checking x state) and the normalised results must be identical to the
// reference configuration.  With existence checking, requests to a location
// that was never created must fail and leave neither storage records nor a
// cache entry.
// Part 2: N goroutines issue the first requests for one location at the same
// time; afterwards one instance is cached and every acknowledged write is
// visible through it.

import (
	"fmt"
	"sync"
	"sync/atomic"
	"testing"
	"time"

	"github.com/Comcast/rulio/core"
	"github.com/Comcast/rulio/sys"
	"github.com/robertkrimen/otto"
	"pgregory.net/rapid"

	"verif/harness/vlib"
)

type c17Case struct {
	Linear bool     `json:"linear"`
	Check  bool     `json:"check"` // existence checking
	Reqs   []c18Req `json:"reqs"`
	Pauses []int    `json:"pauses"` // ms to sleep before request i
}

func genC17(t *rapid.T) c17Case {
	var c c17Case
	c.Linear = rapid.Bool().Draw(t, "linear")
	c.Check = rapid.Bool().Draw(t, "check")
	n := rapid.IntRange(2, 14).Draw(t, "nreqs")
	locs := []string{"la", "lb", "never"}
	for i := 0; i < n; i++ {
		l := fmt.Sprintf("r%d", i)
		loc := rapid.SampledFrom([]string{"la", "la", "lb", "never"}).Draw(t, l+".loc")
		op := rapid.SampledFrom([]string{"create", "addFact", "addFact", "addFact", "getFact", "remFact", "search", "search", "addRule", "ingest", "listRules", "size", "setParents", "getParents", "query", "enabled", "disable", "clear", "delete", "enable", "remRule", "getRule", "searchRules", "stats", "clearStats"}).Draw(t, l+".op")
		if loc == "never" && op == "create" {
			op = "getFact"
		}
		p := M{"location": loc}
		switch op {
		case "addFact":
			p["fact"] = M{"k": rapid.SampledFrom([]string{"x", "y"}).Draw(t, l+".v"), "n": float64(rapid.IntRange(0, 2).Draw(t, l+".n"))}
			p["id"] = rapid.SampledFrom([]string{"f1", "f2", "f3"}).Draw(t, l+".id")
		case "getFact", "remFact":
			p["id"] = rapid.SampledFrom([]string{"f1", "f2", "f3"}).Draw(t, l+".id")
		case "search":
			p["pattern"] = M{"k": "?v"}
			if rapid.Bool().Draw(t, l+".inh") {
				p["inherited"] = true
			}
		case "query":
			p["query"] = M{"pattern": M{"k": "?v"}}
		case "addRule":
			p["rule"] = M{"when": M{"pattern": M{"e": "?x"}}, "condition": M{"pattern": M{"k": "?x"}}, "action": M{"code": "'fired ' + x"}}
			p["id"] = rapid.SampledFrom([]string{"r1", "r2"}).Draw(t, l+".id")
		case "searchRules":
			p["event"] = M{"e": rapid.SampledFrom([]string{"x", "y"}).Draw(t, l+".e")}
			if rapid.Bool().Draw(t, l+".inh") {
				p["inherited"] = true
			}
		case "enabled", "disable", "enable", "remRule", "getRule":
			p["id"] = rapid.SampledFrom([]string{"r1", "r2"}).Draw(t, l+".id")
		case "ingest":
			p["event"] = M{"e": rapid.SampledFrom([]string{"x", "y"}).Draw(t, l+".e")}
		case "setParents":
			p["set"] = `["lb"]`
			p["location"] = "la"
		}
		_ = locs
		c.Reqs = append(c.Reqs, c18Req{op, p})
		c.Pauses = append(c.Pauses, rapid.SampledFrom([]int{0, 0, 0, 3}).Draw(t, l+".pause"))
	}
	return c
}

func c17System(linear, check bool, ttl time.Duration) (*sys.System, error) {
	conf := sys.ExampleConfig()
	conf.UnindexedState = linear
	conf.CheckExistence = check
	cont := sys.ExampleSystemControl()
	cont.Timing = false
	cont.LocationTTL = ttl
	cont.DefaultLocControl = quietControl()
	return sys.NewSystem(newCtx(), *conf, *cont, nullCron{})
}

func runC17(c c17Case) *vlib.Outcome {
	o := &vlib.Outcome{}
	if len(c.Pauses) < len(c.Reqs) {
		o.Discard = true
		return o
	}
	type cfg struct {
		name string
		ttl  time.Duration
	}
	cfgs := []cfg{{"forever", sys.Forever}, {"never", sys.Never}, {"1ms", time.Millisecond}}
	var ref []c18Result
	writeThenPausedRead := false
	wiped := false
	for ci, cf := range cfgs {
		s, err := c17System(c.Linear, c.Check, cf.ttl)
		if err != nil {
			o.Fail("NEWSYSTEM", "%v", err)
			return o
		}
		gens := map[string]bool{}
		created := map[string]bool{}
		var results []c18Result
		lastWrite := map[string]int{}
		for i, r := range c.Reqs {
			if c.Pauses[i] > 0 {
				time.Sleep(time.Duration(c.Pauses[i]) * time.Millisecond)
			}
			loc, _ := r.Params["location"].(string)
			cachedBefore := map[string]bool{}
			for _, cl := range s.GetCachedLocations(newCtx()) {
				cachedBefore[cl] = true
			}
			res := c18Direct(s, r, gens)
			results = append(results, res)
			if r.Op == "create" && res.OK {
				created[loc] = true
			}
			if res.OK && (r.Op == "addFact" || r.Op == "addRule" || r.Op == "remFact" || r.Op == "disable") {
				lastWrite[loc] = i
			}
			if w, had := lastWrite[loc]; had && w < i && c.Pauses[i] > 0 && (r.Op == "getFact" || r.Op == "search" || r.Op == "listRules" || r.Op == "ingest") {
				writeThenPausedRead = true
			}
			if c.Check && !created[loc] && r.Op != "create" {
				when := fmt.Sprintf("[ttl=%s linear=%v] request %d %s %s", cf.name, c.Linear, i, r.Op, vlib.JSON(r.Params))
				if res.OK {
					o.Fail("UNCREATED_LOCATION_SERVED", "%s: existence checking is on and %q was never created, but the request succeeded (%q)", when, loc, res.Data)
				}
				if st, err := s.PeekStorage(newCtx()); err == nil && st != nil {
					if ms, ok := st.(*core.MemStorage); ok {
						ms.Lock()
						n := len(ms.State(newCtx())[loc])
						ms.Unlock()
						if n > 0 {
							o.Fail("UNCREATED_LOCATION_WRITTEN", "%s: a failed request to the uncreated location %q left %d records in storage", when, loc, n)
						}
					}
				}
				for _, cl := range s.GetCachedLocations(newCtx()) {
					if cl == loc && !cachedBefore[loc] {
						o.Fail("UNCREATED_LOCATION_CACHED", "%s: a failed request to the uncreated location %q left a cache entry", when, loc)
					}
				}
			}
			if o.Failed() {
				return o
			}
			if (r.Op == "clear" || r.Op == "delete") && res.OK {
				// whether a cleared or deleted location still counts as
				// created is not specified; only the agreement between the
				// cache configurations is checked from here on
				created[loc] = true
				wiped = true
			}
		}
		if ci == 0 {
			ref = results
			continue
		}
		for i := range results {
			if results[i] != ref[i] {
				o.Fail("CACHE_NOT_TRANSPARENT", "[linear=%v check=%v] request %d %s %s gives %+v with location TTL %s but %+v with TTL forever; history %s",
					c.Linear, c.Check, i, c.Reqs[i].Op, vlib.JSON(c.Reqs[i].Params), results[i], cf.name, ref[i], vlib.JSON(c.Reqs))
				return o
			}
		}
	}
	if writeThenPausedRead {
		o.NonTrivial = true
		o.Label("write-pause-read")
	}
	if wiped {
		o.NonTrivial = true
		o.Label("clear-or-delete")
	}
	return o
}

func TestC17(t *testing.T) {
	vlib.Check(t, "C17", genC17, runC17)
}

// ---------------------------------------------------------------------
// part 2: concurrent first requests

type c17bCase struct {
	Linear bool  `json:"linear"`
	N      int   `json:"n"`
	TTL    int   `json:"ttl"` // 0 forever, 1 = 1 h (finite but long), 2 = 1 ms (entries expire between requests)
	// Reps > 1: every client writes that many facts, reading each one
	// back right after its write was acknowledged.
	Reps int `json:"reps,omitempty"`
	Spin   []int `json:"spin"`
	Noise  int   `json:"noise,omitempty"` // schedule noise (see noise_test.go)
}

func genC17b(t *rapid.T) c17bCase {
	var c c17bCase
	c.Linear = rapid.Bool().Draw(t, "linear")
	c.N = rapid.IntRange(2, 16).Draw(t, "n")
	c.TTL = rapid.SampledFrom([]int{0, 1, 2, 2}).Draw(t, "ttl")
	c.Reps = rapid.IntRange(1, 5).Draw(t, "reps")
	for i := 0; i < c.N; i++ {
		c.Spin = append(c.Spin, rapid.SampledFrom([]int{0, 0, 10, 100, 1000, 10000}).Draw(t, fmt.Sprintf("spin%d", i)))
	}
	if rapid.Bool().Draw(t, "noise?") {
		c.Noise = rapid.IntRange(1, 1000).Draw(t, "noise")
	}
	return c
}

func runC17b(c c17bCase) *vlib.Outcome {
	o := &vlib.Outcome{}
	if c.N < 2 || c.N > 64 || len(c.Spin) < c.N {
		o.Discard = true
		return o
	}
	ttl := sys.Forever
	switch c.TTL {
	case 1:
		ttl = time.Hour
	case 2:
		ttl = time.Millisecond
		o.Label("ttl-1ms")
	}
	reps := c.Reps
	if reps < 1 || reps > 20 {
		reps = 1
	}
	s, err := c17System(c.Linear, false, ttl)
	if err != nil {
		o.Fail("NEWSYSTEM", "%v", err)
		return o
	}
	if c.Noise > 0 {
		_, end := startNoise(c.Noise)
		defer end()
		o.Label("schedule-noise")
	}
	// pre-populate storage through a first system life? (memory storage is
	// per system) -- the location starts empty; each client's first request
	// is a write, acknowledged writes must all be visible afterwards
	var wg sync.WaitGroup
	start := make(chan struct{})
	errs := make([]error, c.N)
	locs := make([]*core.Location, c.N)
	lost := make([]string, c.N)
	for i := 0; i < c.N; i++ {
		wg.Add(1)
		go func(i int) {
			defer wg.Done()
			<-start
			x := 0
			for j := 0; j < c.Spin[i]; j++ {
				x += j
			}
			_ = x
			_, errs[i] = s.AddFact(newCtx(), "shared", fmt.Sprintf("c%d", i), fmt.Sprintf(`{"client":"c%d"}`, i))
			for r := 1; r < reps && errs[i] == nil; r++ {
				// more writes, each read back as soon as it is
				// acknowledged (whatever instance serves the read)
				id := fmt.Sprintf("c%d.%d", i, r)
				if _, err := s.AddFact(newCtx(), "shared", id, fmt.Sprintf(`{"round":"c%d.%d"}`, i, r)); err != nil {
					errs[i] = err
					break
				}
				if _, err := s.GetFact(newCtx(), "shared", id); err != nil {
					lost[i] = fmt.Sprintf("%s (%v)", id, err)
					break
				}
			}
			if c.TTL != 2 {
				locs[i], _ = s.GetLocation(newCtx(), "shared")
			}
		}(i)
	}
	close(start)
	wg.Wait()
	if c.N >= 4 {
		o.NonTrivial = true
	}
	final, err := s.GetLocation(newCtx(), "shared")
	if err != nil {
		o.Fail("GETLOCATION", "%v", err)
		return o
	}
	for i := 0; i < c.N; i++ {
		if errs[i] != nil {
			o.Fail("FIRST_REQUEST_FAILED", "client %d of %d: first request failed: %v", i, c.N, errs[i])
			return o
		}
		if lost[i] != "" {
			o.Fail("ACKNOWLEDGED_WRITE_MISSING", "%d concurrent clients, location TTL %v: client %d wrote fact %s, the write was acknowledged, and its own read right afterwards did not find it", c.N, ttl, i, lost[i])
			return o
		}
		if c.TTL != 2 && locs[i] != final {
			o.Fail("LOCATION_LOADED_TWICE", "%d concurrent first requests: client %d was served by a different location instance than the one that stays cached", c.N, i)
		}
	}
	srs, err := s.SearchFacts(newCtx(), "shared", `{"client":"?c"}`, false)
	if err != nil {
		o.Fail("SEARCH_ERROR", "%v", err)
		return o
	}
	seen := map[string]bool{}
	for _, sr := range srs.Found {
		seen[sr.Id] = true
	}
	for i := 0; i < c.N; i++ {
		if !seen[fmt.Sprintf("c%d", i)] {
			o.Fail("ACKNOWLEDGED_WRITE_MISSING", "%d concurrent first requests: the acknowledged write of client %d is not visible through the cached location (visible: %d facts)", c.N, i, len(seen))
			break
		}
	}
	return o
}

func TestC17Concurrent(t *testing.T) {
	vlib.Check(t, "C17", genC17b, runC17b)
}

// ---------------------------------------------------------------------
// part 3: concurrent first requests with existence checking
//
// Clients issue their first requests for a location that does not exist
// yet: checked requests (which must fail until the location has been
// created), unchecked loads (what a child location's inherited search does
// for its parent) and CreateLocation.  Once a CreateLocation has returned
// without error, the location exists for every request that starts
// afterwards — whatever failed loads were going on beside it.

type c17cCase struct {
	Linear  bool       `json:"linear"`
	TTL     int        `json:"ttl"` // 0 forever, 1 = 1 h, 2 = 1 ms
	Clients [][]string `json:"clients"` // per client: size | parent | create
	Spin    []int      `json:"spin"`
	Noise   int        `json:"noise,omitempty"`
	// Prefill: records put into the location's storage beforehand, so
	// that loading it takes a while.
	Prefill int `json:"prefill,omitempty"`
}

func genC17c(t *rapid.T) c17cCase {
	var c c17cCase
	c.Linear = rapid.Bool().Draw(t, "linear")
	c.TTL = rapid.SampledFrom([]int{0, 0, 1, 2}).Draw(t, "ttl")
	n := rapid.IntRange(2, 8).Draw(t, "n")
	creators := 0
	for i := 0; i < n; i++ {
		var reqs []string
		m := rapid.IntRange(1, 4).Draw(t, fmt.Sprintf("c%d.n", i))
		for j := 0; j < m; j++ {
			k := rapid.SampledFrom([]string{"size", "size", "parent", "create"}).Draw(t, fmt.Sprintf("c%d.r%d", i, j))
			if k == "create" {
				creators++
			}
			reqs = append(reqs, k)
		}
		c.Clients = append(c.Clients, reqs)
		c.Spin = append(c.Spin, rapid.SampledFrom([]int{0, 0, 10, 100, 1000, 10000}).Draw(t, fmt.Sprintf("spin%d", i)))
	}
	if creators == 0 {
		c.Clients[n-1] = append(c.Clients[n-1], "create")
	}
	if rapid.IntRange(0, 3).Draw(t, "noise?") != 0 {
		c.Noise = rapid.IntRange(1, 1000).Draw(t, "noise")
	}
	c.Prefill = rapid.SampledFrom([]int{0, 0, 200, 900}).Draw(t, "prefill")
	return c
}

func runC17c(c c17cCase) *vlib.Outcome {
	o := &vlib.Outcome{}
	if len(c.Clients) < 2 || len(c.Clients) > 32 || len(c.Spin) < len(c.Clients) || c.Prefill > 900 {
		o.Discard = true
		return o
	}
	ttl := sys.Forever
	switch c.TTL {
	case 1:
		ttl = time.Hour
	case 2:
		ttl = time.Millisecond
	}
	s, err := c17System(c.Linear, true, ttl)
	if err != nil {
		o.Fail("NEWSYSTEM", "%v", err)
		return o
	}
	if c.Prefill > 0 {
		s.GetLocation(newCtx(), "elsewhere") // (the System opens its storage with the first request)
		st, err := s.PeekStorage(newCtx())
		if err != nil || st == nil {
			o.Fail("NEWSYSTEM", "no storage: %v", err)
			return o
		}
		for i := 0; i < c.Prefill; i++ {
			p := core.Pair{K: []byte(fmt.Sprintf("old%d", i)), V: []byte(fmt.Sprintf(`{"old":"o%d"}`, i))}
			if err := st.Add(newCtx(), "shared", &p); err != nil {
				o.Fail("NEWSYSTEM", "prefill: %v", err)
				return o
			}
		}
		o.Label("slow-load")
	}
	if c.Noise > 0 {
		_, end := startNoise(c.Noise)
		defer end()
		o.Label("schedule-noise")
	}
	var wg sync.WaitGroup
	start := make(chan struct{})
	n := len(c.Clients)
	fails := make([]string, n)
	var failed int32
	overlapped := false
	var mu sync.Mutex
	inFlightFail := 0
	// (a checked request that is over before any CreateLocation has even
	// begun cannot have found the location created)
	var firstCreate time.Time
	served := make([]string, n)
	for i := 0; i < n; i++ {
		wg.Add(1)
		go func(i int) {
			defer wg.Done()
			<-start
			x := 0
			for j := 0; j < c.Spin[i]; j++ {
				x += j
			}
			_ = x
			for j, k := range c.Clients[i] {
				switch k {
				case "size":
					mu.Lock()
					inFlightFail++
					mu.Unlock()
					_, err := s.GetSize(newCtx(), "shared")
					done := time.Now()
					mu.Lock()
					inFlightFail--
					if err == nil && firstCreate.IsZero() {
						served[i] = fmt.Sprintf("request %d GetSize succeeded at %v, before any CreateLocation had started", j, done.Format("15:04:05.000000"))
					}
					mu.Unlock()
					if err != nil {
						atomic.AddInt32(&failed, 1)
					}
				case "parent":
					s.GetLocation(newCtx(), "shared")
				case "create":
					mu.Lock()
					if inFlightFail > 0 {
						overlapped = true
					}
					if firstCreate.IsZero() {
						firstCreate = time.Now()
					}
					mu.Unlock()
					if _, err := s.CreateLocation(newCtx(), "shared"); err != nil {
						fails[i] = fmt.Sprintf("request %d CreateLocation failed: %v", j, err)
						return
					}
					// created and acknowledged: from now on the
					// location is there
					id := fmt.Sprintf("c%d.%d", i, j)
					if _, err := s.AddFact(newCtx(), "shared", id, `{"by":"`+id+`"}`); err != nil {
						fails[i] = fmt.Sprintf("request %d: CreateLocation returned without error, and this client's AddFact right afterwards failed: %v", j, err)
						return
					}
					if _, err := s.GetFact(newCtx(), "shared", id); err != nil {
						fails[i] = fmt.Sprintf("request %d: the fact %s, written after CreateLocation, was acknowledged and is not found: %v", j, id, err)
						return
					}
				}
			}
		}(i)
	}
	close(start)
	wg.Wait()
	if overlapped || atomic.LoadInt32(&failed) > 0 {
		o.NonTrivial = true
	}
	for i, f := range served {
		if f != "" {
			o.Fail("UNCREATED_LOCATION_SERVED", "[linear=%v ttl=%v] client %d of %d %v: %s (existence checking is on)", c.Linear, ttl, i, n, c.Clients, f)
			return o
		}
	}
	for i, f := range fails {
		if f != "" {
			o.Fail("CREATED_LOCATION_NOT_SERVED", "[linear=%v ttl=%v] client %d of %d %v: %s", c.Linear, ttl, i, n, c.Clients, f)
			return o
		}
	}
	// afterwards (no concurrency any more): the location exists, and every
	// acknowledged write is visible
	for r := 0; r < 2; r++ {
		if _, err := s.GetSize(newCtx(), "shared"); err != nil {
			o.Fail("CREATED_LOCATION_NOT_SERVED", "[linear=%v ttl=%v] clients %v: after all clients are done (CreateLocation succeeded), GetSize says: %v", c.Linear, ttl, c.Clients, err)
			return o
		}
	}
	for i := range c.Clients {
		for j, k := range c.Clients[i] {
			if k == "create" {
				id := fmt.Sprintf("c%d.%d", i, j)
				if _, err := s.GetFact(newCtx(), "shared", id); err != nil {
					o.Fail("ACKNOWLEDGED_WRITE_MISSING", "[linear=%v ttl=%v] clients %v: fact %s was written and acknowledged; afterwards: %v", c.Linear, ttl, c.Clients, id, err)
					return o
				}
			}
		}
	}
	return o
}

func TestC17Create(t *testing.T) {
	vlib.Check(t, "C17", genC17c, runC17c)
}

// ---------------------------------------------------------------------
// part 4: wiping a location (DeleteLocation / ClearLocation) while other
// requests are working on it
//
// Whatever instance the cache hands out after the wipe: a write that STARTED
// after the wipe had returned is not touched by it, so it must be there for
// every later read - also when the writing request (a script that sleeps
// first) had been started before the wipe and holds the location meanwhile.

type c17dCase struct {
	Linear bool  `json:"linear"`
	TTL    int   `json:"ttl"` // 0 forever, 1 = 1 h, 2 = 1 ms
	Delete bool  `json:"delete"` // DeleteLocation rather than ClearLocation
	Slow   []int `json:"slow"`   // per slow writer: ms to sleep inside the script before it writes
	Fast   []int `json:"fast"`   // per fast writer: spin count before its writes
	WipeAt int   `json:"wipeAt"` // ms before the wipe is issued
	Noise  int   `json:"noise,omitempty"`
}

func genC17d(t *rapid.T) c17dCase {
	var c c17dCase
	c.Linear = rapid.Bool().Draw(t, "linear")
	c.TTL = rapid.SampledFrom([]int{0, 0, 1, 2}).Draw(t, "ttl")
	c.Delete = rapid.Bool().Draw(t, "delete")
	ns := rapid.IntRange(1, 3).Draw(t, "nslow")
	for i := 0; i < ns; i++ {
		c.Slow = append(c.Slow, rapid.SampledFrom([]int{2, 5, 10, 20}).Draw(t, fmt.Sprintf("slow%d", i)))
	}
	nf := rapid.IntRange(0, 3).Draw(t, "nfast")
	for i := 0; i < nf; i++ {
		c.Fast = append(c.Fast, rapid.SampledFrom([]int{0, 100, 10000, 100000}).Draw(t, fmt.Sprintf("fast%d", i)))
	}
	c.WipeAt = rapid.SampledFrom([]int{0, 1, 3, 6}).Draw(t, "wipeAt")
	if rapid.Bool().Draw(t, "noise?") {
		c.Noise = rapid.IntRange(1, 1000).Draw(t, "noise")
	}
	return c
}

func runC17d(c c17dCase) *vlib.Outcome {
	o := &vlib.Outcome{}
	if len(c.Slow) < 1 || len(c.Slow) > 8 || len(c.Fast) > 8 || c.WipeAt < 0 || c.WipeAt > 100 {
		o.Discard = true
		return o
	}
	ttl := sys.Forever
	switch c.TTL {
	case 1:
		ttl = time.Hour
	case 2:
		ttl = time.Millisecond
	}
	s, err := c17System(c.Linear, false, ttl)
	if err != nil {
		o.Fail("NEWSYSTEM", "%v", err)
		return o
	}
	if _, err := s.AddFact(newCtx(), "shared", "seed", `{"seed":"yes"}`); err != nil {
		o.Fail("NEWSYSTEM", "%v", err)
		return o
	}
	if c.Noise > 0 {
		_, end := startNoise(c.Noise)
		defer end()
		o.Label("schedule-noise")
	}
	type write struct {
		id      string
		started time.Time // just before the write was issued
		err     error
		readErr error // the writer's own read right after the acknowledgement
	}
	var mu sync.Mutex
	var writes []*write
	var wipeDone time.Time
	var wipeErr error
	var wg sync.WaitGroup
	start := make(chan struct{})
	for i, ms := range c.Slow {
		wg.Add(1)
		go func(i, ms int) {
			defer wg.Done()
			<-start
			w := &write{id: fmt.Sprintf("slow%d", i)}
			props := map[string]interface{}{
				"mark": func(call otto.FunctionCall) otto.Value {
					w.started = time.Now()
					return otto.TrueValue()
				},
			}
			code := fmt.Sprintf("Env.sleep(%d); Env.mark(); Env.AddFact('%s', {by: '%s'}); 'done'", ms*1000000, w.id, w.id)
			_, w.err = s.RunJavascript(newCtx(), "shared", code, nil, nil, props)
			if w.err == nil {
				_, w.readErr = s.GetFact(newCtx(), "shared", w.id)
			}
			mu.Lock()
			writes = append(writes, w)
			mu.Unlock()
		}(i, ms)
	}
	for i, spin := range c.Fast {
		wg.Add(1)
		go func(i, spin int) {
			defer wg.Done()
			<-start
			x := 0
			for j := 0; j < spin; j++ {
				x += j
			}
			_ = x
			for r := 0; r < 3; r++ {
				w := &write{id: fmt.Sprintf("fast%d.%d", i, r), started: time.Now()}
				_, w.err = s.AddFact(newCtx(), "shared", w.id, `{"by":"`+w.id+`"}`)
				if w.err == nil {
					_, w.readErr = s.GetFact(newCtx(), "shared", w.id)
				}
				mu.Lock()
				writes = append(writes, w)
				mu.Unlock()
				time.Sleep(time.Millisecond)
			}
		}(i, spin)
	}
	wg.Add(1)
	go func() {
		defer wg.Done()
		<-start
		time.Sleep(time.Duration(c.WipeAt) * time.Millisecond)
		if c.Delete {
			wipeErr = s.DeleteLocation(newCtx(), "shared")
		} else {
			wipeErr = s.ClearLocation(newCtx(), "shared")
		}
		mu.Lock()
		wipeDone = time.Now()
		mu.Unlock()
	}()
	close(start)
	wg.Wait()
	what := "ClearLocation"
	if c.Delete {
		what = "DeleteLocation"
	}
	if wipeErr != nil {
		o.Fail("WIPE_ERROR", "%s failed: %v", what, wipeErr)
		return o
	}
	after := 0
	for _, w := range writes {
		if w.err != nil {
			o.Fail("WRITE_ERROR", "[linear=%v ttl=%v] the write of %s failed: %v", c.Linear, ttl, w.id, w.err)
			return o
		}
		if w.started.IsZero() || !w.started.After(wipeDone) {
			continue // (concurrent with the wipe, or before it: may be wiped)
		}
		after++
		if w.readErr != nil {
			o.Fail("ACKNOWLEDGED_WRITE_MISSING", "[linear=%v ttl=%v] %s had returned %v before the write of %s started; the write was acknowledged, and the writer's own read right afterwards says: %v", c.Linear, ttl, what, w.started.Sub(wipeDone), w.id, w.readErr)
			return o
		}
		if _, err := s.GetFact(newCtx(), "shared", w.id); err != nil {
			o.Fail("ACKNOWLEDGED_WRITE_MISSING", "[linear=%v ttl=%v] %s had returned %v before the write of %s started; the write was acknowledged, and at the end: %v", c.Linear, ttl, what, w.started.Sub(wipeDone), w.id, err)
			return o
		}
	}
	if after > 0 {
		o.NonTrivial = true
		o.Label("write-after-wipe")
	}
	return o
}

func TestC17Wipe(t *testing.T) {
	vlib.Check(t, "C17", genC17d, runC17d)
}
