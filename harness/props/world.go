package props

// world drives real core.Location objects next to the reference model and
// compares what they return.

import (
	"reflect"
	"encoding/json"
	"fmt"
	"io"
	"sort"
	"strings"
	"time"

	"github.com/Comcast/rulio/core"
	"github.com/Comcast/rulio/cron"
	"github.com/Comcast/rulio/sys"

	"verif/harness/gen"
	"verif/harness/refmatch"
	"verif/harness/vlib"
)

type world struct {
	kind  string // "indexed" | "linear"
	store core.Storage
	locs  map[string]*core.Location
	prov  *core.SimpleLocationProvider
	ctrl  *core.Control
	model map[string]*mLoc
	o     *vlib.Outcome
	// hooks lets a property install cron hooks on every state it builds.
	hooks func(core.State)
	// engine, if set, supplies the locations (sys.System.GetLocation): the
	// System is then the LocationProvider that resolves parents, with its
	// location cache and the cron hooks it installs.
	engine *sys.System
	// typing != 0: facts are handed to AddFact in Go-typed form (see
	// goTyped), as Go callers and the Javascript bridge deliver them.
	typing int
	// loadDesc: the storage hands back a location's records in descending
	// instead of ascending key order (see orderedStore).
	loadDesc bool
	// strictEvents: a failing ProcessEvent is a violation whenever the model
	// has a rule that certainly must be dispatched, even if the presence of
	// other rules is unspecified at that moment (set by checks in whose
	// histories nothing can make event processing fail legitimately).
	strictEvents bool
	// eventCtx, if set, is the context checkEvent passes to ProcessEvent
	// (actions that use Env.AddFact etc. need a context with a location).
	eventCtx *core.Context
}

func init() {
	// Silence rulio's logging: records logged without a context go to
	// DefaultLogger, and a location without its own control (during
	// NewLocation) falls back to SystemParameters.DefaultControl.
	core.DefaultLogger = core.NewSimpleLogger(io.Discard)
	core.SystemParameters.DefaultControl = quietControl()
}

func newCtx() *core.Context { return core.BenchContext("verif") }

// locCtx is a context that carries its location, as every request that
// comes through sys.System does (the state hooks rely on it).
func locCtx(loc *core.Location) *core.Context {
	ctx := newCtx()
	ctx.SetLoc(loc)
	return ctx
}

func quietControl() *core.Control {
	c := core.DefaultControl()
	c.Verbosity = core.NOTHING
	c.Logging = "none"
	c.NoTiming = true
	return c
}

// orderedStore makes the order in which a storage hands back the records of
// a location a property of the case: MemStorage returns them in Go's random
// map order, which would make a case that reloads a location something else
// than a pure function of its JSON.  Ascending by key (what a key-ordered
// back end such as Bolt does) unless *desc.
type orderedStore struct {
	core.Storage
	desc *bool
}

func (s *orderedStore) Load(ctx *core.Context, loc string) ([]core.Pair, error) {
	pairs, err := s.Storage.Load(ctx, loc)
	if err != nil {
		return pairs, err
	}
	sort.SliceStable(pairs, func(i, j int) bool {
		if *s.desc {
			return string(pairs[i].K) > string(pairs[j].K)
		}
		return string(pairs[i].K) < string(pairs[j].K)
	})
	return pairs, nil
}

func newWorld(kind string, store core.Storage, o *vlib.Outcome) *world {
	if store == nil {
		store, _ = core.NewMemStorage(newCtx())
	}
	w := &world{kind: kind, locs: map[string]*core.Location{}, ctrl: quietControl(),
		model: map[string]*mLoc{}, o: o}
	w.store = &orderedStore{store, &w.loadDesc}
	w.prov = core.NewSimpleLocationProvider(w.locs)
	return w
}

// withCronHooks installs the cron state hooks on every state this world
// builds, as sys.System does for the locations it serves.
func (w *world) withCronHooks() {
	w.hooks = func(st core.State) { cron.AddHooks(newCtx(), nullCron{}, st) }
	w.o.Label("state-hooks")
}

// hookNotFound: with the cron hooks installed, removing an id that is not
// there reports not-found (the remove hook looks the id up first) and
// removes nothing.
func (w *world) hookNotFound(err error, ml *mLoc, id string) bool {
	if w.hooks == nil && w.engine == nil {
		return false
	}
	if _, nf := err.(*core.NotFoundError); !nf {
		return false
	}
	_, have := ml.Items[id]
	return !have || ml.Unspec[id]
}

func (w *world) newState(name string) (core.State, error) {
	ctx := newCtx()
	var st core.State
	var err error
	if w.kind == "linear" {
		st, err = core.NewLinearState(ctx, name, w.store)
	} else {
		st, err = core.NewIndexedState(ctx, name, w.store)
	}
	if err == nil && w.hooks != nil {
		w.hooks(st)
	}
	return st, err
}

// open (re)builds the location from storage alone and makes it the live one.
func (w *world) open(name string) (*core.Location, error) {
	loc, err := w.build(name)
	if err != nil {
		return nil, err
	}
	w.locs[name] = loc
	if _, have := w.model[name]; !have {
		w.model[name] = newMLoc(name)
	}
	return loc, nil
}

// build makes a fresh location object over the shared storage without
// installing it.
func (w *world) build(name string) (*core.Location, error) {
	if w.engine != nil {
		ctx := newCtx()
		return w.engine.GetLocation(ctx, name)
	}
	st, err := w.newState(name)
	if err != nil {
		return nil, err
	}
	ctx := newCtx()
	// (the control is handed to NewLocation, as sys.System does, and not
	// set afterwards)
	loc, err := core.NewLocation(ctx, name, st, w.ctrl)
	if err != nil {
		return nil, err
	}
	loc.Provider = w.prov
	return loc, nil
}

// goTyped turns a JSON-typed value into what Go code and the Javascript
// bridge (otto exports homogeneous arrays as typed slices) hand over: nested
// core.Map, []string, []map[string]interface{}, [][]string, selected by the
// bits of mask.  The top-level map stays a plain map.
func goTyped(x interface{}, mask int, site *int, top bool) interface{} {
	bit := func() bool {
		b := mask&(1<<(*site%12)) != 0
		*site++
		return b
	}
	switch v := x.(type) {
	case map[string]interface{}:
		n := make(map[string]interface{}, len(v))
		for _, k := range gen.SortedKeys(M(v)) {
			n[k] = goTyped(v[k], mask, site, false)
		}
		if !top && bit() {
			return core.Map(n)
		}
		return n
	case []interface{}:
		n := make([]interface{}, len(v))
		allStr, allMap, allStrArr := len(v) > 0, len(v) > 0, len(v) > 0
		for i, y := range v {
			n[i] = goTyped(y, mask, site, false)
			if _, ok := y.(string); !ok {
				allStr = false
			}
			if _, ok := y.(map[string]interface{}); !ok {
				allMap = false
			}
			ok := false
			switch ya := y.(type) {
			case A:
				ok = len(ya) > 0
				for _, z := range ya {
					if _, isStr := z.(string); !isStr {
						ok = false
					}
				}
			}
			if !ok {
				allStrArr = false
			}
		}
		if !bit() {
			return n
		}
		switch {
		case allStr:
			ss := make([]string, len(v))
			for i, y := range v {
				ss[i] = y.(string)
			}
			return ss
		case allMap:
			ms := make([]map[string]interface{}, len(v))
			for i := range v {
				switch m := n[i].(type) {
				case map[string]interface{}:
					ms[i] = m
				case core.Map:
					ms[i] = map[string]interface{}(m)
				}
			}
			return ms
		case allStrArr:
			sss := make([][]string, len(v))
			for i, y := range v {
				for _, z := range y.(A) {
					sss[i] = append(sss[i], z.(string))
				}
			}
			return sss
		}
		return n
	}
	return x
}

func nowSecs() int64 { return time.Now().UTC().Unix() }

// ---------------------------------------------------------------------
// operations (real + model)

type opResult struct {
	Id  string
	Err error
}

// addFact performs AddFact on both sides.  `fact` must not contain ttl or
// expires unless exp* say what the model should expect.
func (w *world) addFact(name, id string, fact M) opResult {
	loc, ml := w.locs[name], w.model[name]
	t0 := nowSecs()
	given := core.Map(gen.CopyMap(fact))
	if w.typing != 0 {
		site := 0
		given = core.Map(goTyped(map[string]interface{}(given), w.typing, &site, true).(map[string]interface{}))
		w.o.Label("go-typed-fact")
	}
	gotId, err := loc.AddFact(newCtx(), id, given)
	t1 := nowSecs()
	if err != nil {
		return opResult{"", err}
	}
	isProp, target, prop, multiple := factProp(fact)
	stored := fact
	if isProp && !multiple {
		// a property depends on its target, however it is written
		stored = withTargetDependency(fact, target)
	}
	it := modelFactItem(stored)
	w.applyExpiry(it, t0, t1)
	if isProp && !multiple {
		alt := modelFactItem(fact)
		w.applyExpiry(alt, t0, t1)
		it.AltStored = alt.Stored
	}
	wantId := id
	if isProp && !multiple {
		wantId = propId(target, prop)
	}
	if wantId != "" && gotId != wantId {
		w.o.Fail("WRONG_ID", "AddFact(%q, %s) returned id %q, expected %q", id, vlib.JSON(fact), gotId, wantId)
	}
	if wantId == "" {
		if gotId == "" {
			w.o.Fail("EMPTY_ID", "AddFact(\"\", %s) returned an empty id", vlib.JSON(fact))
		} else if _, have := ml.Items[gotId]; have {
			w.o.Fail("ID_NOT_FRESH", "AddFact(\"\", %s) generated id %q which is already in use", vlib.JSON(fact), gotId)
		}
	}
	ml.put(gotId, it)
	return opResult{gotId, nil}
}

// applyExpiry folds ttl/expires of the stored form into the model item.
func (w *world) applyExpiry(it *mItem, t0, t1 int64) {
	st := it.Stored
	if ttl, have := st["ttl"]; have {
		delete(st, "ttl")
		var d int64
		switch v := ttl.(type) {
		case float64:
			d = int64(v)
		case string:
			dd, _ := time.ParseDuration(v)
			d = int64(dd / time.Second)
			// sub-second remainders: now+d truncated to a second
			if dd%time.Second != 0 {
				it.ExpLo, it.ExpHi = t0+d, t1+d+1
				st["expires"] = expBand{it.ExpLo, it.ExpHi}
				w.liftRuleExpires(it)
				return
			}
		}
		it.ExpLo, it.ExpHi = t0+d, t1+d
		st["expires"] = expBand{it.ExpLo, it.ExpHi}
		w.liftRuleExpires(it)
		return
	}
	if e, have := st["expires"]; have {
		var x int64
		switch v := e.(type) {
		case float64:
			x = int64(v)
		case string:
			t, _ := time.Parse(time.RFC3339, v)
			x = t.UTC().Unix()
		}
		it.ExpLo, it.ExpHi = x, x
		st["expires"] = expBand{x, x}
		w.liftRuleExpires(it)
	}
}

func (w *world) liftRuleExpires(it *mItem) {
	if r, ok := it.Stored["rule"].(M); ok {
		r["expires"] = it.Stored["expires"]
	}
}

// expBand is an expected numeric value within [Lo, Hi].
type expBand struct{ Lo, Hi int64 }

func (b expBand) MarshalJSON() ([]byte, error) {
	if b.Lo == b.Hi {
		return json.Marshal(b.Lo)
	}
	return json.Marshal(fmt.Sprintf("[%d..%d]", b.Lo, b.Hi))
}

// addRule performs AddRule on both sides.
func (w *world) addRule(name, id string, rule M) opResult {
	loc, ml := w.locs[name], w.model[name]
	t0 := nowSecs()
	gotId, err := loc.AddRule(newCtx(), id, core.Map(gen.CopyMap(rule)))
	t1 := nowSecs()
	if err != nil {
		return opResult{"", err}
	}
	wrapper := ruleWrapper(rule)
	// ttl/expires given inside the rule are lifted to the wrapper
	r := wrapper["rule"].(M)
	if ttl, have := r["ttl"]; have {
		wrapper["ttl"] = ttl
		delete(r, "ttl")
	} else if e, have := r["expires"]; have {
		wrapper["expires"] = e
	}
	it := modelFactItem(wrapper)
	w.applyExpiry(it, t0, t1)
	if id != "" && gotId != id {
		w.o.Fail("WRONG_ID", "AddRule(%q) returned id %q", id, gotId)
	}
	if id == "" {
		if gotId == "" {
			w.o.Fail("EMPTY_ID", "AddRule(\"\") returned an empty id")
		} else if _, have := ml.Items[gotId]; have {
			w.o.Fail("ID_NOT_FRESH", "AddRule(\"\") generated id %q which is already in use", gotId)
		}
	}
	if a, ok := rule["action"].(M); ok {
		if c, ok := a["code"].(string); ok {
			it.Tag = strings.Trim(c, "'")
		}
	}
	ml.put(gotId, it)
	return opResult{gotId, nil}
}

func (w *world) remFact(name, id string) opResult {
	loc, ml := w.locs[name], w.model[name]
	_, err := loc.RemFact(newCtx(), id)
	if err != nil {
		if w.hookNotFound(err, ml, id) {
			// the id is not there, and nothing was removed
			delete(ml.Items, id)
			delete(ml.Unspec, id)
			return opResult{id, nil}
		}
		return opResult{id, err}
	}
	ml.rem(id)
	return opResult{id, nil}
}

func (w *world) remRule(name, id string) opResult {
	loc, ml := w.locs[name], w.model[name]
	_, err := loc.RemRule(newCtx(), id)
	if err != nil {
		if w.hookNotFound(err, ml, id) {
			// the id is not there; nothing was removed, the disabled
			// flag (if any) stays
			delete(ml.Items, id)
			delete(ml.Unspec, id)
			return opResult{id, nil}
		}
		return opResult{id, err}
	}
	ml.rem(id)
	// the disabled flag disappears with the rule
	ml.rem(propId(id, "disabled"))
	delete(ml.Unspec, propId(id, "disabled"))
	return opResult{id, nil}
}

func (w *world) enableRule(name, id string, enable bool) opResult {
	loc, ml := w.locs[name], w.model[name]
	err := loc.EnableRule(newCtx(), id, enable)
	if err != nil {
		if enable && w.hookNotFound(err, ml, propId(id, "disabled")) && !ml.Unspec[propId(id, "disabled")] {
			// enabling a rule that carries no flag: nothing to remove
			return opResult{id, nil}
		}
		return opResult{id, err}
	}
	pid := propId(id, "disabled")
	if enable {
		delete(ml.Items, pid)
		delete(ml.Unspec, pid)
	} else {
		ml.put(pid, modelFactItem(M{"id": id, "!disabled": true, "deleteWith": A{id}}))
	}
	return opResult{id, nil}
}

func (w *world) clear(name string) error {
	err := w.locs[name].Clear(newCtx())
	if err == nil {
		w.model[name].clear()
	}
	return err
}

func (w *world) setParents(name string, parents []string) error {
	_, err := w.locs[name].SetParents(newCtx(), parents)
	if err == nil {
		ps := make(A, len(parents))
		for i, p := range parents {
			ps[i] = p
		}
		w.model[name].put(propId("", "parents"), modelFactItem(M{"id": "", "!parents": ps, "deleteWith": A{""}}))
	}
	return err
}

// reload rebuilds the live location from storage alone.
func (w *world) reload(name string) error {
	_, err := w.open(name)
	return err
}

// ---------------------------------------------------------------------
// observations

// ancestors returns the model's ancestor closure of name (depth-first,
// parents before self as DoAncestors does); ok=false if a loop, an
// unspecified parent set or a location reached twice (a diamond) is met.
func (w *world) ancestors(name string) (order []string, ok bool) {
	return w.ancestorsFor(name, func(*mLoc) bool { return true })
}

// ancestorsFor is ancestors with a finer treatment of diamonds: whether the
// facts and rules of a location reached through two parents count once or
// twice is not specified, so the closure is unspecified (ok=false) only if
// such a location contributes anything to the observation at hand
// (contributes(ml)); otherwise it is listed once.
func (w *world) ancestorsFor(name string, contributes func(*mLoc) bool) (order []string, ok bool) {
	seen := map[string]bool{}
	var visit func(n string, stack map[string]bool) bool
	visit = func(n string, stack map[string]bool) bool {
		if stack[n] {
			return false
		}
		ml, have := w.model[n]
		if !have {
			return false
		}
		ps, spec := ml.parents()
		if !spec {
			return false
		}
		stack[n] = true
		for _, p := range ps {
			if !visit(p, stack) {
				return false
			}
		}
		delete(stack, n)
		if seen[n] {
			// reached twice (a diamond)
			if contributes(ml) {
				return false
			}
			w.o.Label("diamond-without-contribution")
			return true
		}
		seen[n] = true
		order = append(order, n)
		return true
	}
	ok = visit(name, map[string]bool{})
	return
}

func isRefusal(err error) bool {
	if err == nil {
		return false
	}
	s := err.Error()
	return strings.Contains(s, "No terms given")
}

// checkGet compares GetFact(id) with the model.
func (w *world) checkGet(name, id, when string) {
	ml := w.model[name]
	if !ml.specified(id) {
		return
	}
	got, err := w.locs[name].GetFact(newCtx(), id)
	it, have := ml.Items[id]
	if have && it.live(nowSecs()) == 2 {
		return
	}
	if have && it.live(nowSecs()) == 0 {
		have = false
	}
	if !have {
		if err == nil {
			w.o.Fail("GET_RESURRECTED", "%s: %s GetFact(%q) returned %s but the id is not stored", when, name, id, vlib.JSON(got))
		} else if _, nf := err.(*core.NotFoundError); !nf {
			w.o.Fail("GET_ERROR", "%s: %s GetFact(%q) of an absent id failed with %v instead of not-found", when, name, id, err)
		}
		return
	}
	if err != nil {
		w.o.Fail("GET_LOST", "%s: %s GetFact(%q) failed with %v; expected %s", when, name, id, err, vlib.JSON(it.Stored))
		return
	}
	if !equalStored(it.Stored, map[string]interface{}(got)) && (it.AltStored == nil || !equalStored(it.AltStored, map[string]interface{}(got))) {
		w.o.Fail("GET_WRONG", "%s: %s GetFact(%q) = %s; expected %s", when, name, id, vlib.JSON(got), vlib.JSON(it.Stored))
	}
}

// equalStored compares an expected stored value (may contain expBand) with
// what the implementation returned.
func equalStored(want, got interface{}) bool {
	switch w := want.(type) {
	case expBand:
		f, ok := refmatch.Num(got)
		return ok && float64(w.Lo) <= f && f <= float64(w.Hi)
	case M:
		g, ok := got.(M)
		if !ok {
			if cm, ok2 := got.(core.Map); ok2 {
				g = M(cm)
			} else {
				return false
			}
		}
		if len(w) != len(g) {
			return false
		}
		for k, x := range w {
			y, have := g[k]
			if !have || !equalStored(x, y) {
				return false
			}
		}
		return true
	case A:
		var g A
		switch gv := got.(type) {
		case A:
			g = gv
		case []string:
			for _, s := range gv {
				g = append(g, s)
			}
		default:
			// other Go-typed slices ([]map[string]interface{}, [][]string, ...)
			rv := reflect.ValueOf(got)
			if rv.Kind() != reflect.Slice {
				return false
			}
			for i := 0; i < rv.Len(); i++ {
				g = append(g, rv.Index(i).Interface())
			}
		}
		if len(w) != len(g) {
			return false
		}
		for i := range w {
			if !equalStored(w[i], g[i]) {
				return false
			}
		}
		return true
	}
	return refmatch.Equal(want, got, true)
}

type searchCmp struct {
	Refused  bool
	Expected int // number of ids expected (specified ones)
	Got      int
}

// checkSearch compares SearchFacts(pattern) with the model.
func (w *world) checkSearch(name string, pattern M, inherited bool, when string) searchCmp {
	var sc searchCmp
	srs, err := w.locs[name].SearchFacts(newCtx(), core.Map(gen.CopyMap(pattern)), inherited)
	if err != nil {
		if isRefusal(err) {
			sc.Refused = true
			return sc
		}
		if inherited {
			order, ok := w.ancestors(name)
			if !ok {
				return sc // loops/unspecified parents/diamonds: an error is fine
			}
			for _, ln := range order {
				if w.model[ln].locEnabled() != 1 {
					return sc // a disabled location in the closure
				}
			}
		}
		w.o.Fail("SEARCH_ERROR", "%s: %s SearchFacts(%s) failed: %v", when, name, vlib.JSON(pattern), err)
		return sc
	}
	locs := []string{name}
	if inherited {
		order, ok := w.ancestorsFor(name, func(ml *mLoc) bool { return len(ml.search(pattern)) > 0 || len(ml.Unspec) > 0 })
		if !ok {
			return sc
		}
		locs = order
	}
	for _, ln := range locs {
		if ln != name && w.model[ln].locEnabled() != 1 {
			return sc // a disabled ancestor: not specified here
		}
	}
	// expected: per location
	exp := map[string]expMatch{}
	unspec := map[string]bool{}
	now := nowSecs()
	for _, ln := range locs {
		ml := w.model[ln]
		for id, e := range ml.search(pattern) {
			it := ml.Items[id]
			switch {
			case !ml.specified(id), it.live(now) == 2:
				unspec[id] = true
			case it.live(now) == 0:
			default:
				if prev, dup := exp[id]; dup {
					// same id in two locations: merge
					for k := range e.Strict {
						prev.Strict[k] = true
					}
					for k := range e.Lenient {
						prev.Lenient[k] = true
					}
					exp[id] = prev
				} else {
					exp[id] = e
				}
			}
		}
		for id := range ml.Unspec {
			unspec[id] = true
		}
	}
	sc.Expected = len(exp)
	got := map[string]map[string]bool{}
	for _, sr := range srs.Found {
		if got[sr.Id] == nil {
			got[sr.Id] = map[string]bool{}
		}
		for _, b := range sr.Bindingss {
			got[sr.Id][refmatch.Key(refmatch.Bindings(b))] = true
		}
	}
	sc.Got = len(got)
	for id, e := range exp {
		g, have := got[id]
		if !have && len(e.Strict) == 0 {
			continue // a match only under the lenient array reading
		}
		if !have {
			if w.kind == "indexed" && hasPropVar(pattern) && hasUnindexedKey(w.storedOf(locs, id)) && vlib.KnownActive("index-propvar-unindexed-value") {
				w.o.Known = append(w.o.Known, "index-propvar-unindexed-value")
				continue
			}
			w.o.Fail("SEARCH_MISSED", "%s: %s SearchFacts(%s) omitted stored fact %q = %s (expected bindings %v); returned ids %v",
				when, name, vlib.JSON(pattern), id, w.storedJSON(locs, id), sortedKeys(e.Strict), keysOf(got))
			continue
		}
		if d := diffSets(e.Strict, g); len(d) > 0 && !e.Rebind {
			w.o.Fail("SEARCH_BINDINGS_MISSING", "%s: %s SearchFacts(%s) fact %q: bindings %v missing; got %v", when, name, vlib.JSON(pattern), id, d, sortedKeys(g))
		}
		if d := diffSets(g, e.Lenient); len(d) > 0 && !e.Rebind {
			w.o.Fail("SEARCH_BINDINGS_WRONG", "%s: %s SearchFacts(%s) fact %q: bindings %v are not matches; expected %v", when, name, vlib.JSON(pattern), id, d, sortedKeys(e.Lenient))
		}
	}
	for id := range got {
		if _, have := exp[id]; !have && !unspec[id] {
			if st := w.storedOf(locs, id); st != nil && refBoth(pattern, st).Rebind && vlib.KnownActive("matcher-bound-container-var-is-pattern") {
				w.o.Known = append(w.o.Known, "matcher-bound-container-var-is-pattern")
				continue
			}
			w.o.Fail("SEARCH_SPURIOUS", "%s: %s SearchFacts(%s) returned id %q which is not a stored match (model has: %s)", when, name, vlib.JSON(pattern), id, w.storedJSON(locs, id))
		}
	}
	return sc
}

func (w *world) storedOf(locs []string, id string) M {
	for _, ln := range locs {
		if it, have := w.model[ln].Items[id]; have {
			return it.Stored
		}
	}
	return nil
}

// hasPropVar: some map in the pattern has a variable as key.
func hasPropVar(p interface{}) bool {
	return gen.Has(p, func(y interface{}) bool {
		if m, ok := y.(M); ok {
			for k := range m {
				if strings.HasPrefix(k, "?") {
					return true
				}
			}
		}
		return false
	})
}

// hasUnindexedKey: some map has a key whose value the term index skips by
// design ("rule" and keys ending in '!').
func hasUnindexedKey(f interface{}) bool {
	return gen.Has(f, func(y interface{}) bool {
		if m, ok := y.(M); ok {
			for k := range m {
				if k == "rule" || strings.HasSuffix(k, "!") {
					return true
				}
			}
		}
		return false
	})
}

func (w *world) storedJSON(locs []string, id string) string {
	for _, ln := range locs {
		if it, have := w.model[ln].Items[id]; have {
			return vlib.JSON(it.Stored)
		}
	}
	return "<absent>"
}

func keysOf(m map[string]map[string]bool) []string {
	ks := make([]string, 0, len(m))
	for k := range m {
		ks = append(ks, k)
	}
	sort.Strings(ks)
	return ks
}

type eventCmp struct {
	Values    []interface{}
	NBind     map[string]int // rule id -> number of binding sets evaluated
	Expected  int            // rules the model dispatches
	Stored    int            // rules stored (own + inherited)
	Unspec    bool
	ErrorDisp bool
}

var specials = []string{"?event", "?location", "?ruleId"}

// checkEvent processes an event and compares the dispatched rules and their
// bindings with the model.
func (w *world) checkEvent(name string, event M, when string) eventCmp {
	var ec eventCmp
	order, ok := w.ancestorsFor(name, func(ml *mLoc) bool { return len(ml.dispatch(event)) > 0 || len(ml.Unspec) > 0 })
	ectx := w.eventCtx
	if ectx == nil {
		ectx = newCtx()
	}
	work, cond := w.locs[name].ProcessEvent(ectx, core.Map(gen.CopyMap(event)))
	if !ok {
		ec.Unspec = true
		return ec
	}
	me := w.model[name]
	if me.locEnabled() != 1 {
		ec.Unspec = true
		return ec
	}
	now := nowSecs()
	exp := map[string]expMatch{}
	unspec := map[string]bool{}
	dupIds := false
	seenRule := map[string]bool{}
	for _, ln := range order {
		if w.model[ln].locEnabled() == 1 {
			continue
		}
		// An ancestor is disabled (or its flag is unspecified).  What
		// the event does otherwise is not specified, but no rule of a
		// disabled location may run.
		ec.Unspec = true
		if cond == nil && work != nil {
			for _, child := range work.Children {
				id := child.Rule.Id
				for _, l2 := range order {
					m2 := w.model[l2]
					it, have := m2.Items[id]
					if m2.locEnabled() == 0 && have && it.IsRule && m2.specified(id) {
						elsewhere := false
						for _, l3 := range order {
							if _, also := w.model[l3].Items[id]; also && l3 != l2 {
								elsewhere = true
							}
						}
						if !elsewhere {
							w.o.Fail("RULE_OF_DISABLED_LOCATION_RAN", "%s: %s ProcessEvent(%s) evaluated rule %q, which belongs to the disabled location %s",
								when, name, vlib.JSON(event), id, l2)
						}
					}
				}
			}
		}
		return ec
	}
	for _, ln := range order {
		ml := w.model[ln]
		for _, it := range ml.Items {
			if it.IsRule {
				ec.Stored++
			}
		}
		for id, e := range ml.dispatch(event) {
			it := ml.Items[id]
			if seenRule[id] {
				dupIds = true
			}
			seenRule[id] = true
			switch {
			case !ml.specified(id), it.live(now) == 2, me.ruleDisabled(id) == 2:
				unspec[id] = true
			case it.live(now) == 0, me.ruleDisabled(id) == 1:
			default:
				exp[id] = e
			}
		}
		for id := range ml.Unspec {
			unspec[id] = true
		}
	}
	if dupIds {
		// documented: duplicate ids between a location and an ancestor
		// give an error
		ec.Unspec = true
		return ec
	}
	ec.Expected = len(exp)
	if cond != nil {
		ec.ErrorDisp = true
		if len(unspec) == 0 || (w.strictEvents && len(exp) > 0) {
			w.o.Fail("DISPATCH_ERROR", "%s: %s ProcessEvent(%s) failed with %q although the model dispatches %v (stale index entry blocking dispatch?)",
				when, name, vlib.JSON(event), cond.Msg, keysOfExp(exp))
		}
		return ec
	}
	got := map[string]map[string]bool{}
	ec.Values = work.Values
	ec.NBind = map[string]int{}
	for _, child := range work.Children {
		id := child.Rule.Id
		ec.NBind[id] += len(child.Bindingss)
		if got[id] != nil {
			w.o.Fail("DISPATCH_DUPLICATE", "%s: %s ProcessEvent(%s) evaluated rule %q twice", when, name, vlib.JSON(event), id)
		}
		got[id] = map[string]bool{}
		for _, b := range child.Bindingss {
			c := refmatch.Bindings{}
			for k, v := range b {
				c[k] = v
			}
			// the engine adds ?event/?location/?ruleId unless the
			// rule's own `when` binds a variable of that name
			own := map[string]bool{}
			if wh := w.whenOf(order, id); wh != nil {
				refmatch.Vars(wh, own)
			}
			for _, s := range specials {
				if !own[s] {
					delete(c, s)
				}
			}
			got[id][refmatch.Key(c)] = true
		}
	}
	for id, e := range exp {
		g, have := got[id]
		if !have && len(e.Strict) == 0 {
			continue // a match only under the lenient array reading
		}
		if !have {
			w.o.Fail("MISSED_RULE", "%s: %s ProcessEvent(%s) did not evaluate rule %q whose when %s matches (bindings %v); evaluated %v",
				when, name, vlib.JSON(event), id, w.whenJSON(order, id), sortedKeys(e.Strict), keysOf(got))
			continue
		}
		if d := diffSets(e.Strict, g); len(d) > 0 && !e.Rebind {
			w.o.Fail("DISPATCH_BINDINGS_MISSING", "%s: %s ProcessEvent(%s) rule %q: bindings %v missing; got %v", when, name, vlib.JSON(event), id, d, sortedKeys(g))
		}
		if d := diffSets(g, e.Lenient); len(d) > 0 && !e.Rebind {
			w.o.Fail("DISPATCH_BINDINGS_WRONG", "%s: %s ProcessEvent(%s) rule %q: bindings %v are not matches of %s; expected %v", when, name, vlib.JSON(event), id, d, w.whenJSON(order, id), sortedKeys(e.Lenient))
		}
	}
	for id := range got {
		if _, have := exp[id]; !have && !unspec[id] {
			if wh := w.whenOf(order, id); wh != nil && refBoth(wh, event).Rebind && vlib.KnownActive("matcher-bound-container-var-is-pattern") {
				w.o.Known = append(w.o.Known, "matcher-bound-container-var-is-pattern")
				continue
			}
			w.o.Fail("SPURIOUS_RULE", "%s: %s ProcessEvent(%s) evaluated rule %q which the model does not dispatch (when: %s)", when, name, vlib.JSON(event), id, w.whenJSON(order, id))
		}
	}
	return ec
}

func keysOfExp(m map[string]expMatch) []string {
	ks := make([]string, 0, len(m))
	for k := range m {
		ks = append(ks, k)
	}
	sort.Strings(ks)
	return ks
}

func (w *world) whenOf(locs []string, id string) M {
	for _, ln := range locs {
		if it, have := w.model[ln].Items[id]; have && it.IsRule {
			return it.When
		}
	}
	return nil
}

func (w *world) whenJSON(locs []string, id string) string {
	for _, ln := range locs {
		if it, have := w.model[ln].Items[id]; have {
			if !it.IsRule {
				return "<not a rule: " + vlib.JSON(it.Stored) + ">"
			}
			return vlib.JSON(it.When)
		}
	}
	return "<absent>"
}

// checkListRules compares ListRules with the model's rule ids.
func (w *world) checkListRules(name string, inherited bool, when string) {
	locs := []string{name}
	if inherited {
		order, ok := w.ancestorsFor(name, func(ml *mLoc) bool {
			for _, it := range ml.Items {
				if it.IsRule {
					return true
				}
			}
			return len(ml.Unspec) > 0
		})
		if !ok {
			return
		}
		locs = order
	}
	for _, ln := range locs {
		if w.model[ln].locEnabled() != 1 {
			return // a disabled location in the closure: not specified here
		}
	}
	got, err := w.locs[name].ListRules(newCtx(), inherited)
	if err != nil {
		w.o.Fail("LISTRULES_ERROR", "%s: %s ListRules failed: %v", when, name, err)
		return
	}
	exp := map[string]bool{}
	unspec := map[string]bool{}
	now := nowSecs()
	for _, ln := range locs {
		ml := w.model[ln]
		for id, it := range ml.Items {
			if _, isRule := it.Stored["rule"]; isRule {
				switch {
				case !ml.specified(id), it.live(now) == 2:
					unspec[id] = true
				case it.live(now) == 1:
					exp[id] = true
				}
			}
		}
		for id := range ml.Unspec {
			unspec[id] = true
		}
	}
	g := map[string]bool{}
	for _, id := range got {
		g[id] = true
	}
	for id := range exp {
		if !g[id] {
			w.o.Fail("LISTRULES_MISSED", "%s: %s ListRules omitted rule %q; got %v", when, name, id, got)
		}
	}
	for id := range g {
		if !exp[id] && !unspec[id] {
			w.o.Fail("LISTRULES_SPURIOUS", "%s: %s ListRules returned %q which is not a stored rule", when, name, id)
		}
	}
}

// storageKeys returns the ids stored for a location, straight from storage.
func (w *world) storageKeys(name string) (map[string]string, error) {
	pairs, err := w.store.Load(newCtx(), name)
	if err != nil {
		return nil, err
	}
	acc := map[string]string{}
	for _, p := range pairs {
		acc[string(p.K)] = string(p.V)
	}
	return acc, nil
}

// checkStorage compares the stored key set with the model.
func (w *world) checkStorage(name, when string) {
	ml := w.model[name]
	keys, err := w.storageKeys(name)
	if err != nil {
		w.o.Fail("STORAGE_ERROR", "%s: loading %s from storage failed: %v", when, name, err)
		return
	}
	now := nowSecs()
	for id, it := range ml.Items {
		if !ml.specified(id) || it.live(now) != 1 {
			continue
		}
		if _, have := keys[id]; !have {
			w.o.Fail("STORAGE_LOST", "%s: %s id %q is not in storage; stored ids %v", when, name, id, mapKeys(keys))
		}
	}
	for id := range keys {
		it, have := ml.Items[id]
		if ml.Unspec[id] {
			continue
		}
		if !have {
			w.o.Fail("STORAGE_LEFTOVER", "%s: %s storage still holds id %q = %s which was deleted", when, name, id, keys[id])
		} else if it.live(now) == 0 {
			// expired but not yet observed: allowed to linger
		}
	}
}

func mapKeys(m map[string]string) []string {
	ks := make([]string, 0, len(m))
	for k := range m {
		ks = append(ks, k)
	}
	sort.Strings(ks)
	return ks
}

// setProp performs Location.SetProp on both sides.
func (w *world) setProp(name, id, prop string, val interface{}) error {
	err := w.locs[name].SetProp(locCtx(w.locs[name]), id, prop, gen.DeepCopy(val))
	if err == nil {
		p := prop
		if !strings.HasPrefix(p, "!") {
			p = "!" + p
		}
		w.model[name].put(propId(id, strings.TrimPrefix(p, "!")), modelFactItem(M{"id": id, p: gen.DeepCopy(val), "deleteWith": A{id}}))
	}
	return err
}

// checkAll compares presence/value of every id of the universe and of the
// model, the rule list and the storage key set.
func (w *world) checkAll(name string, universe []string, when string) {
	seen := map[string]bool{}
	for _, id := range universe {
		seen[id] = true
		w.checkGet(name, id, when)
	}
	ids := make([]string, 0, len(w.model[name].Items))
	for id := range w.model[name].Items {
		ids = append(ids, id)
	}
	sort.Strings(ids)
	for _, id := range ids {
		if !seen[id] {
			w.checkGet(name, id, when)
		}
	}
	w.checkListRules(name, false, when)
	w.checkStorage(name, when)
}

// ---------------------------------------------------------------------
// generic op interpreter with separate real and model halves (used where
// the real half may crash or fail: C06)

// applyReal performs the operation on the live location.
func (w *world) applyReal(name string, x op) (id string, err error) {
	loc := w.locs[name]
	switch x.K {
	case "addFact":
		return loc.AddFact(newCtx(), x.Id, core.Map(gen.CopyMap(x.Doc)))
	case "addRule":
		return loc.AddRule(newCtx(), x.Id, core.Map(gen.CopyMap(x.Doc)))
	case "remFact":
		return loc.RemFact(newCtx(), x.Id)
	case "remRule":
		return loc.RemRule(newCtx(), x.Id)
	case "enable":
		return x.Id, loc.EnableRule(newCtx(), x.Id, x.B)
	case "setParents":
		return loc.SetParents(newCtx(), x.L)
	case "setProp":
		p, _ := x.Doc["p"].(string)
		return x.Id, loc.SetProp(newCtx(), x.Id, p, gen.DeepCopy(x.Doc["v"]))
	case "clear":
		return "", loc.Clear(newCtx())
	}
	return "", fmt.Errorf("unknown op %q", x.K)
}

// applyModel performs the operation on a model location.  gotId is the id
// the implementation acknowledged ("" if unknown, e.g. for an interrupted
// operation: then x.Id is used and an omitted id makes the result unknown).
func (w *world) applyModel(ml *mLoc, x op, gotId string, t0, t1 int64) {
	switch x.K {
	case "addFact":
		it := modelFactItem(x.Doc)
		w.applyExpiry(it, t0, t1)
		id := gotId
		if id == "" {
			id = x.Id
			if isProp, target, prop, multiple := factProp(x.Doc); isProp && !multiple {
				id = propId(target, prop)
			}
		}
		if id != "" {
			ml.put(id, it)
		}
	case "addRule":
		wrapper := ruleWrapper(x.Doc)
		r := wrapper["rule"].(M)
		if ttl, have := r["ttl"]; have {
			wrapper["ttl"] = ttl
			delete(r, "ttl")
		} else if e, have := r["expires"]; have {
			wrapper["expires"] = e
		}
		it := modelFactItem(wrapper)
		w.applyExpiry(it, t0, t1)
		id := gotId
		if id == "" {
			id = x.Id
		}
		if id != "" {
			ml.put(id, it)
		}
	case "remFact":
		ml.rem(x.Id)
	case "remRule":
		ml.rem(x.Id)
		ml.rem(propId(x.Id, "disabled"))
		delete(ml.Unspec, propId(x.Id, "disabled"))
	case "enable":
		pid := propId(x.Id, "disabled")
		if x.B {
			delete(ml.Items, pid)
			delete(ml.Unspec, pid)
		} else {
			ml.put(pid, modelFactItem(M{"id": x.Id, "!disabled": true, "deleteWith": A{x.Id}}))
		}
	case "setParents":
		ps := make(A, len(x.L))
		for i, p := range x.L {
			ps[i] = p
		}
		ml.put(propId("", "parents"), modelFactItem(M{"id": "", "!parents": ps, "deleteWith": A{""}}))
	case "setProp":
		p, _ := x.Doc["p"].(string)
		ml.put(propId(x.Id, p), modelFactItem(M{"id": x.Id, "!" + p: gen.DeepCopy(x.Doc["v"]), "deleteWith": A{x.Id}}))
	case "clear":
		ml.clear()
	}
}

// observe builds a canonical observation vector of a location (used to
// compare a live location with one rebuilt from storage).
func observe(loc *core.Location, ids []string, patterns []M, events []M) map[string]string {
	obs := map[string]string{}
	errClass := func(err error) string {
		if _, nf := err.(*core.NotFoundError); nf {
			return "notfound"
		}
		return "error: " + err.Error()
	}
	for _, id := range ids {
		f, err := loc.GetFact(newCtx(), id)
		if err != nil {
			obs["get "+id] = errClass(err)
		} else {
			obs["get "+id] = vlib.JSON(refmatch.Canon(map[string]interface{}(f)))
		}
		en, err := loc.RuleEnabled(newCtx(), id)
		obs["enabled "+id] = fmt.Sprint(en, err)
	}
	rules, err := loc.ListRules(newCtx(), false)
	sort.Strings(rules)
	obs["rules"] = fmt.Sprint(rules, err)
	ps, err := loc.GetParents(newCtx())
	obs["parents"] = fmt.Sprint(ps, err)
	for i, p := range patterns {
		srs, err := loc.SearchFacts(newCtx(), core.Map(gen.CopyMap(p)), false)
		if err != nil {
			obs[fmt.Sprintf("search %d", i)] = "error: " + err.Error()
			continue
		}
		var rows []string
		for _, sr := range srs.Found {
			var bs []string
			for _, b := range sr.Bindingss {
				bs = append(bs, refmatch.Key(refmatch.Bindings(b)))
			}
			sort.Strings(bs)
			rows = append(rows, sr.Id+"="+strings.Join(bs, ","))
		}
		sort.Strings(rows)
		obs[fmt.Sprintf("search %d %s", i, vlib.JSON(p))] = strings.Join(rows, " ; ")
	}
	for i, e := range events {
		work, cond := loc.ProcessEvent(newCtx(), core.Map(gen.CopyMap(e)))
		if cond != nil {
			obs[fmt.Sprintf("event %d", i)] = "error: " + cond.Msg
			continue
		}
		var rows []string
		for _, ch := range work.Children {
			var bs []string
			for _, b := range ch.Bindingss {
				c := refmatch.Bindings{}
				for k, v := range b {
					c[k] = v
				}
				for _, s := range specials {
					delete(c, s)
				}
				bs = append(bs, refmatch.Key(c))
			}
			sort.Strings(bs)
			rows = append(rows, ch.Rule.Id+"="+strings.Join(bs, ","))
		}
		sort.Strings(rows)
		var vals []string
		for _, v := range work.Values {
			vals = append(vals, fmt.Sprint(v))
		}
		sort.Strings(vals)
		obs[fmt.Sprintf("event %d %s", i, vlib.JSON(e))] = strings.Join(rows, " ; ") + " values " + strings.Join(vals, ",")
	}
	return obs
}

func diffObs(a, b map[string]string) []string {
	var d []string
	for k, v := range a {
		if b[k] != v {
			d = append(d, fmt.Sprintf("%s: live %q vs reloaded %q", k, v, b[k]))
		}
	}
	for k, v := range b {
		if _, have := a[k]; !have {
			d = append(d, fmt.Sprintf("%s: live <none> vs reloaded %q", k, v))
		}
	}
	sort.Strings(d)
	return d
}

// withTargetDependency is the stored form of a property written as a fact:
// its deleteWith names the target (other ids given by the writer stay).
func withTargetDependency(fact M, target string) M {
	out := gen.CopyMap(fact)
	switch dw := out["deleteWith"].(type) {
	case nil:
		out["deleteWith"] = A{target} // (absent, or an explicit null)
	case []interface{}:
		for _, v := range dw {
			if s, ok := v.(string); ok && s == target {
				return out
			}
		}
		out["deleteWith"] = append(append(A{}, dw...), target)
	}
	return out
}
