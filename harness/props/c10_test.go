package props

// C10 — rule lifecycle: only live, enabled rules fire.
//
// State machine per rule id: add, overwrite (other when, other tag), remove,
// disable, enable, reload, location disable / re-enable, rules in a parent,
// child-side disable of an inherited rule, events.  The dispatched rules, the
// action values (each add carries a unique tag, so an overwritten rule's old
// action is recognisable), RuleEnabled and the behaviour of a disabled
// location are compared with the model after every step.

import (
	"fmt"
	"sort"
	"strings"
	"testing"

	"github.com/Comcast/rulio/core"
	"pgregory.net/rapid"

	"verif/harness/gen"
	"verif/harness/vlib"
)

type c10Case struct {
	Parent bool `json:"parent"`
	Ops    []op `json:"ops"`
	// Hooks installs the cron state hooks (as sys.System does).
	Hooks bool `json:"hooks,omitempty"`
}

var c10Whens = []M{{"a": "x"}, {"a": "?v"}, {"b": "y"}, {"a": "x", "b": "?w"}}
var c10Events = []M{{"a": "x"}, {"b": "y"}, {"a": "x", "b": "y"}, {"a": "z"}, {"c": 1.0}}

func genC10(t *rapid.T) c10Case {
	var c c10Case
	c.Parent = rapid.Bool().Draw(t, "parent")
	n := rapid.IntRange(3, 25).Draw(t, "nops")
	ids := []string{"r1", "r2", "r3"}
	for i := 0; i < n; i++ {
		l := fmt.Sprintf("op%d", i)
		kinds := []string{"add", "add", "add", "rem", "disable", "disable", "enable", "reload", "event", "event", "event", "event", "locOff", "locOn", "fact", "sched", "evaluate", "addEmptySched", "trigger", "trigger", "schedOff"}
		if c.Parent {
			kinds = append(kinds, "padd", "prem", "pdisable", "penable", "plocOff", "plocOn")
		}
		id := rapid.SampledFrom(ids).Draw(t, l+".id")
		switch k := rapid.SampledFrom(kinds).Draw(t, l+".kind"); k {
		case "add":
			c.Ops = append(c.Ops, op{K: "addRule", Loc: "L", Id: id, N: int64(rapid.IntRange(0, len(c10Whens)-1).Draw(t, l+".when"))})
		case "evaluate":
			// an event that brings its own rule along
			c.Ops = append(c.Ops, op{K: "evaluate", Loc: "L"})
		case "addEmptySched":
			// an event rule that also has a 'schedule' property which says
			// "no schedule" (B: null rather than "")
			c.Ops = append(c.Ops, op{K: "addRule", Loc: "L", Id: id, N: int64(rapid.IntRange(0, len(c10Whens)-1).Draw(t, l+".when")),
				Doc: M{"emptySchedule": true}, B: rapid.Bool().Draw(t, l+".null")})
		case "sched":
			// a scheduled rule written under a rule id replaces the rule
			// (N = -1 marks it)
			c.Ops = append(c.Ops, op{K: "addRule", Loc: "L", Id: id, N: -1})
			c.Ops = append(c.Ops, op{K: "event", Loc: "L", N: int64(rapid.IntRange(0, len(c10Events)-1).Draw(t, l+".fev"))})
		case "trigger":
			// an event that names the rule to run (what a cron service
			// delivers for a scheduled rule); B: with a property that some
			// rules' conditions look for
			c.Ops = append(c.Ops, op{K: "trigger", Loc: "L", Id: id, B: rapid.Bool().Draw(t, l+".witha")})
		case "schedOff":
			// a scheduled rule, disabled, and then its trigger
			c.Ops = append(c.Ops, op{K: "addRule", Loc: "L", Id: id, N: -1})
			c.Ops = append(c.Ops, op{K: "enable", Loc: "L", Id: id, B: false})
			c.Ops = append(c.Ops, op{K: "trigger", Loc: "L", Id: id})
		case "fact":
			// a plain fact written under a rule id replaces the rule
			c.Ops = append(c.Ops, op{K: "addFact", Loc: "L", Id: id})
		case "rem":
			c.Ops = append(c.Ops, op{K: "remRule", Loc: "L", Id: id})
		case "disable":
			c.Ops = append(c.Ops, op{K: "enable", Loc: "L", Id: id, B: false})
		case "enable":
			c.Ops = append(c.Ops, op{K: "enable", Loc: "L", Id: id, B: true})
		case "reload":
			c.Ops = append(c.Ops, op{K: "reload", Loc: "L"})
		case "event":
			c.Ops = append(c.Ops, op{K: "event", Loc: "L", N: int64(rapid.IntRange(0, len(c10Events)-1).Draw(t, l+".ev"))})
		case "locOff":
			if rapid.IntRange(0, 2).Draw(t, l+".really?") == 0 {
				c.Ops = append(c.Ops, op{K: "locEnabled", Loc: "L", Id: rapid.SampledFrom([]string{"no", "false", "off"}).Draw(t, l+".val")})
			}
		case "locOn":
			c.Ops = append(c.Ops, op{K: "locEnabled", Loc: "L", Id: rapid.SampledFrom([]string{"yes", "true"}).Draw(t, l+".val")})
		case "plocOff":
			c.Ops = append(c.Ops, op{K: "plocEnabled", Loc: "P", Id: rapid.SampledFrom([]string{"no", "off"}).Draw(t, l+".val")})
			c.Ops = append(c.Ops, op{K: "event", Loc: "L", N: int64(rapid.IntRange(0, len(c10Events)-1).Draw(t, l+".fev"))})
		case "plocOn":
			c.Ops = append(c.Ops, op{K: "plocEnabled", Loc: "P", Id: "yes"})
		case "padd":
			c.Ops = append(c.Ops, op{K: "addRule", Loc: "P", Id: "p" + id, N: int64(rapid.IntRange(0, len(c10Whens)-1).Draw(t, l+".when"))})
		case "prem":
			c.Ops = append(c.Ops, op{K: "remRule", Loc: "P", Id: "p" + id})
		case "pdisable":
			c.Ops = append(c.Ops, op{K: "enable", Loc: "L", Id: "p" + id, B: false})
		case "penable":
			c.Ops = append(c.Ops, op{K: "enable", Loc: "L", Id: "p" + id, B: true})
		}
		if len(c.Ops) > 0 {
			switch c.Ops[len(c.Ops)-1].K {
			case "addRule", "enable", "reload":
				if rapid.Bool().Draw(t, l+".followup?") {
					c.Ops = append(c.Ops, op{K: "event", Loc: "L", N: int64(rapid.IntRange(0, len(c10Events)-1).Draw(t, l+".fev"))})
				}
			}
		}
	}
	c.Hooks = rapid.IntRange(0, 2).Draw(t, "hooks") == 0
	return c
}

func isDisabledErr(err error) bool {
	return err != nil && strings.Contains(strings.ToLower(err.Error()), "disabled")
}

func runC10(c c10Case) *vlib.Outcome {
	o := &vlib.Outcome{}
	for _, kind := range []string{"indexed", "linear"} {
		w := newWorld(kind, nil, o)
		if c.Hooks {
			w.withCronHooks()
		}
		w.open("L")
		if c.Parent {
			w.open("P")
			if err := w.setParents("L", []string{"P"}); err != nil {
				o.Fail("SETPARENTS", "%v", err)
				return o
			}
		}
		sawDisableEvent, sawOverwriteEvent, sawReloadEvent := false, false, false
		pendingDisable, pendingOverwrite, pendingReload := false, false, false
		for i, x := range c.Ops {
			when := fmt.Sprintf("[%s parent=%v] op %d %s", kind, c.Parent, i, vlib.JSON(x))
			if _, have := w.locs[x.Loc]; !have {
				continue
			}
			ml := w.model[x.Loc]
			locOn := ml.locEnabled() == 1
			expectDisabled := func(err error, what string) bool {
				if locOn {
					return false
				}
				if !isDisabledErr(err) {
					o.Fail("DISABLED_LOCATION_SERVED", "%s: %s in a disabled location returned %v instead of the 'disabled' error", when, what, err)
				}
				return true
			}
			switch x.K {
			case "addRule":
				if x.N < -1 || int(x.N) >= len(c10Whens) {
					continue
				}
				tag := fmt.Sprintf("t%d", i)
				_, had := ml.Items[x.Id]
				newRule := M{"schedule": "+1h", "action": M{"code": "'" + tag + "'"}}
				if x.N >= 0 {
					newRule = mkRule(c10Whens[x.N], tag)
					if e, _ := x.Doc["emptySchedule"].(bool); e {
						// (an empty schedule is no schedule: the rule
						// parser and the cron hooks both say so)
						if x.B {
							newRule["schedule"] = nil
						} else {
							newRule["schedule"] = ""
						}
						o.Label("empty-schedule")
					}
				} else {
					o.Label("overwritten-by-scheduled-rule")
				}
				if !locOn {
					_, err := w.locs[x.Loc].AddRule(newCtx(), x.Id, core.Map(newRule))
					expectDisabled(err, "AddRule")
					break
				}
				if r := w.addRule(x.Loc, x.Id, newRule); r.Err != nil {
					if e, _ := x.Doc["emptySchedule"].(bool); e {
						// (refusing the odd rule is fine: then it was
						// not added, and nothing has changed)
						o.Label("empty-schedule-refused")
						break
					}
					o.Fail("ADDRULE_ERROR", "%s: AddRule failed: %v", when, r.Err)
				} else if had {
					pendingOverwrite = true
					// whether a disabled flag survives an in-place
					// overwrite is not specified
					if _, flagged := w.model["L"].Items[propId(x.Id, "disabled")]; flagged {
						w.model["L"].Unspec[propId(x.Id, "disabled")] = true
					}
				}
			case "addFact":
				if !locOn {
					_, err := w.locs[x.Loc].AddFact(newCtx(), x.Id, core.Map{"plain": "fact"})
					expectDisabled(err, "AddFact")
					break
				}
				_, had := ml.Items[x.Id]
				if r := w.addFact(x.Loc, x.Id, M{"plain": "fact"}); r.Err != nil {
					o.Fail("ADD_ERROR", "%s: AddFact failed: %v", when, r.Err)
				} else if had {
					pendingOverwrite = true
					if _, flagged := w.model["L"].Items[propId(x.Id, "disabled")]; flagged {
						w.model["L"].Unspec[propId(x.Id, "disabled")] = true
					}
				}
			case "remRule":
				if !locOn {
					_, err := w.locs[x.Loc].RemRule(newCtx(), x.Id)
					expectDisabled(err, "RemRule")
					break
				}
				if r := w.remRule(x.Loc, x.Id); r.Err != nil {
					o.Fail("REMRULE_ERROR", "%s: RemRule failed: %v", when, r.Err)
				}
				if x.Loc == "P" {
					// the child's flag for an inherited rule is not
					// reachable by the parent's removal: unspecified
					if _, flagged := w.model["L"].Items[propId(x.Id, "disabled")]; flagged {
						w.model["L"].Unspec[propId(x.Id, "disabled")] = true
					}
				}
			case "enable":
				if !locOn {
					err := w.locs[x.Loc].EnableRule(newCtx(), x.Id, x.B)
					expectDisabled(err, "EnableRule")
					break
				}
				_, exists := ml.Items[x.Id]
				if strings.HasPrefix(x.Id, "p") && c.Parent {
					_, exists = w.model["P"].Items[x.Id]
				}
				if r := w.enableRule(x.Loc, x.Id, x.B); r.Err != nil {
					o.Fail("ENABLE_ERROR", "%s: EnableRule failed: %v", when, r.Err)
				} else if !x.B {
					if exists {
						pendingDisable = true
					}
				}
			case "plocEnabled":
				if _, have := w.locs["P"]; !have {
					continue
				}
				if err := w.setProp("P", "", "enabled", x.Id); err != nil {
					o.Fail("SETPROP_ERROR", "%s: SetProp(enabled) on the parent failed: %v", when, err)
				}
				if x.Id != "yes" {
					o.Label("parent-disabled")
				}
			case "locEnabled":
				if err := w.setProp("L", "", "enabled", x.Id); err != nil {
					o.Fail("SETPROP_ERROR", "%s: SetProp(enabled) failed: %v", when, err)
				}
			case "reload":
				if err := w.reload(x.Loc); err != nil {
					o.Fail("RELOAD", "%s: reload failed: %v", when, err)
					return o
				}
				pendingReload = true
			case "evaluate":
				tag := fmt.Sprintf("e%d", i)
				ev := core.Map{"probe": "1", "evaluate!": map[string]interface{}(mkRule(M{"probe": "1"}, tag))}
				work, cond := w.locs["L"].ProcessEvent(newCtx(), ev)
				var vals []string
				if work != nil {
					for _, v := range work.Values {
						vals = append(vals, fmt.Sprint(v))
					}
				}
				if !locOn {
					if cond == nil || !strings.Contains(strings.ToLower(cond.Msg), "disabled") {
						o.Fail("DISABLED_LOCATION_SERVED", "%s: ProcessEvent (with an embedded rule) in a disabled location returned %v", when, cond)
					}
					if len(vals) > 0 {
						o.Fail("DISABLED_LOCATION_FIRED", "%s: the embedded rule of an event fired in a disabled location: values %v", when, vals)
					}
					o.Label("evaluate-in-disabled-location")
				} else if cond != nil || len(vals) != 1 || vals[0] != tag {
					o.Fail("EMBEDDED_RULE_DID_NOT_RUN", "%s: an event with an embedded rule should run exactly that rule (value %q); got values %v, condition %v", when, tag, vals, cond)
				}
			case "trigger":
				ev := M{"trigger!": x.Id}
				if x.B {
					ev["a"] = "x"
				}
				work, _ := w.locs["L"].ProcessEvent(newCtx(), core.Map(gen.CopyMap(ev)))
				var vals []string
				if work != nil {
					for _, v := range work.Values {
						vals = append(vals, fmt.Sprint(v))
					}
				}
				if !locOn {
					if len(vals) > 0 {
						o.Fail("DISABLED_LOCATION_FIRED", "%s: a rule named by an event fired in a disabled location: values %v", when, vals)
					}
					break
				}
				it, d := ml.Items[x.Id], ml.ruleDisabled(x.Id)
				if ml.Unspec[x.Id] || d == 2 {
					break
				}
				var want []string
				if it != nil && it.IsRule && d == 0 {
					n := 1 // a rule without a condition on the event runs once
					if it.When != nil {
						e := refBoth(it.When, ev)
						if len(e.Strict) != len(e.Lenient) {
							break
						}
						n = len(e.Strict)
					}
					for j := 0; j < n; j++ {
						want = append(want, it.Tag)
					}
				}
				if it != nil && it.IsRule && d == 1 {
					o.Label("trigger-of-disabled-rule")
					if it.When == nil {
						sawDisableEvent = true
					}
				}
				if it != nil && it.IsRule && it.Tag == "" {
					break
				}
				if len(want) > 0 && fmt.Sprint(want) == fmt.Sprint(vals) && c15OneShot(it.Schedule) {
					// a one-shot rule is deleted after it ran
					ml.rem(x.Id)
					ml.rem(propId(x.Id, "disabled"))
					o.Label("one-shot-ran")
					break
				}
				if fmt.Sprint(want) != fmt.Sprint(vals) {
					o.Fail("WRONG_TRIGGER_VALUES", "%s: an event that names rule %q (in the model: %s, disabled=%v) produced the values %v; expected %v", when, x.Id, vlib.JSON(it), d == 1, vals, want)
				}
			case "event":
				if x.N < 0 || int(x.N) >= len(c10Events) {
					continue
				}
				ev := c10Events[x.N]
				if !locOn {
					work, cond := w.locs["L"].ProcessEvent(newCtx(), core.Map(ev))
					if cond == nil || !strings.Contains(strings.ToLower(cond.Msg), "disabled") {
						o.Fail("DISABLED_LOCATION_SERVED", "%s: ProcessEvent in a disabled location returned %v", when, cond)
					}
					if work != nil && len(work.Values) > 0 {
						o.Fail("DISABLED_LOCATION_FIRED", "%s: a rule fired in a disabled location: values %v", when, work.Values)
					}
					o.Label("event-in-disabled-location")
					break
				}
				ec := w.checkEvent("L", ev, when)
				if ec.Unspec {
					o.Label("event-unspecified")
					break
				}
				if pendingDisable {
					sawDisableEvent = true
				}
				if pendingOverwrite {
					sawOverwriteEvent = true
				}
				if pendingReload {
					sawReloadEvent = true
				}
				// values: one tag per dispatched rule and binding set
				var want []string
				unknown := false
				for id, n := range ec.NBind {
					tag := ""
					for _, ln := range []string{"L", "P"} {
						if m2, have := w.model[ln]; have {
							if it, have := m2.Items[id]; have && it.IsRule {
								tag = it.Tag
							}
						}
					}
					if tag == "" {
						unknown = true
					}
					for j := 0; j < n; j++ {
						want = append(want, tag)
					}
				}
				var got []string
				for _, v := range ec.Values {
					got = append(got, fmt.Sprint(v))
				}
				sort.Strings(want)
				sort.Strings(got)
				if !unknown && fmt.Sprint(want) != fmt.Sprint(got) {
					o.Fail("WRONG_ACTION_VALUES", "%s: event values %v; expected %v (one per dispatched rule and binding set; an old tag means a replaced rule's action ran)", when, got, want)
				}
			}
			if o.Failed() {
				return o
			}
			// RuleEnabled for every present rule
			if w.model["L"].locEnabled() == 1 {
				for _, id := range []string{"r1", "r2", "r3", "pr1", "pr2", "pr3"} {
					present := false
					if it, have := w.model["L"].Items[id]; have && it.IsRule {
						present = true
					}
					if c.Parent {
						if it, have := w.model["P"].Items[id]; have && it.IsRule {
							present = true
						}
					}
					d := w.model["L"].ruleDisabled(id)
					if !present || d == 2 {
						continue
					}
					en, err := w.locs["L"].RuleEnabled(newCtx(), id)
					if err != nil {
						o.Fail("RULEENABLED_ERROR", "%s: RuleEnabled(%q) failed: %v", when, id, err)
					} else if en != (d == 0) {
						o.Fail("RULEENABLED_WRONG", "%s: RuleEnabled(%q) = %v, expected %v", when, id, en, d == 0)
					}
				}
				w.checkListRules("L", c.Parent, when)
			} else {
				// every operation reports that the location is disabled
				_, e1 := w.locs["L"].GetFact(newCtx(), "r1")
				_, e2 := w.locs["L"].ListRules(newCtx(), false)
				_, e3 := w.locs["L"].SearchFacts(newCtx(), core.Map{"rule": "?r"}, false)
				_, e4 := w.locs["L"].RuleEnabled(newCtx(), "r1")
				_, e5 := w.locs["L"].AddFact(newCtx(), "zz", core.Map{"a": "x"})
				_, e6 := w.locs["L"].RemFact(newCtx(), "zz")
				for j, e := range []error{e1, e2, e3, e4, e5, e6} {
					if !isDisabledErr(e) {
						o.Fail("DISABLED_LOCATION_SERVED", "%s: operation #%d (of GetFact, ListRules, SearchFacts, RuleEnabled, AddFact, RemFact) in a disabled location returned %v", when, j+1, e)
					}
				}
				o.Label("disabled-location-probed")
			}
			if o.Failed() {
				return o
			}
		}
		if sawDisableEvent && sawOverwriteEvent && sawReloadEvent {
			o.NonTrivial = true
		}
		if sawDisableEvent {
			o.Label("disable->event")
		}
		if sawOverwriteEvent {
			o.Label("overwrite->event")
		}
		if sawReloadEvent {
			o.Label("reload->event")
		}
	}
	return o
}

func TestC10(t *testing.T) {
	vlib.Check(t, "C10", genC10, runC10)
}
