package props

// C19 — access controls and enablement are enforced on every path.
//
// Twin locations are driven by the same generated history: P goes through
// protection states (write key, read key, both, read-only, disabled, none)
// and is called under caller contexts with no / wrong / right / partial keys;
// U is never protected.  An unauthorised call on P must fail, reveal nothing
// and leave storage untouched; an authorised call must give exactly what U
// gives.  Operations cover the Location API, RunJavascript and events whose
// actions call Env.AddFact / Env.RemFact / Env.AddRule / Env.Search.

import (
	"encoding/json"
	"fmt"
	"sort"
	"strings"
	"testing"

	"github.com/Comcast/rulio/core"
	"pgregory.net/rapid"

	"verif/harness/refmatch"
	"verif/harness/vlib"
)

type c19Op struct {
	K   string `json:"k"`
	Id  string `json:"id,omitempty"`
	Ctx string `json:"ctx,omitempty"` // none | wrong | right | readkey | writekey
	V   string `json:"v,omitempty"`
}

type c19Case struct {
	Kind string  `json:"kind"`
	Ops  []c19Op `json:"ops"`
}

var c19Mutating = []string{"AddFact", "RemFact", "AddRule", "RemRule", "EnableRule", "SetParents", "Clear", "EventAdd", "EventRem", "EventAddRule", "JSAddFact", "EventTrigger"}
var c19Revealing = []string{"GetFact", "GetRule", "SearchFacts", "SearchRules", "ListRules", "Query", "StateSize", "GetParents", "EventSearch", "JSSearch", "EventPlain",
	"SearchInherited", "ListRulesInherited", "SearchRulesInherited", "RuleEnabled"}

// c19ParentKey is the read key of the (always read-protected) parent of P.
const c19ParentKey = "r1"

func genC19(t *rapid.T) c19Case {
	var c c19Case
	c.Kind = rapid.SampledFrom([]string{"indexed", "linear"}).Draw(t, "kind")
	n := rapid.IntRange(4, 24).Draw(t, "nops")
	ids := []string{"f1", "f2", "r1"}
	for i := 0; i < n; i++ {
		l := fmt.Sprintf("op%d", i)
		switch rapid.IntRange(0, 4).Draw(t, l+".class") {
		case 0:
			c.Ops = append(c.Ops, c19Op{K: "protect", V: rapid.SampledFrom([]string{"writeKey=w1", "writeKey=", "readKey=r1", "readKey=", "readOnly=1", "readOnly=0", "disabled=1", "disabled=0", "writeKey=w1", "readKey=r1"}).Draw(t, l+".prot")})
		case 1, 2:
			c.Ops = append(c.Ops, c19Op{K: rapid.SampledFrom(c19Mutating).Draw(t, l+".op"), Id: rapid.SampledFrom(ids).Draw(t, l+".id"),
				Ctx: rapid.SampledFrom([]string{"none", "wrong", "right", "right", "readkey", "writekey"}).Draw(t, l+".ctx"), V: rapid.SampledFrom([]string{"x", "y"}).Draw(t, l+".v")})
		default:
			c.Ops = append(c.Ops, c19Op{K: rapid.SampledFrom(c19Revealing).Draw(t, l+".op"), Id: rapid.SampledFrom(ids).Draw(t, l+".id"),
				Ctx: rapid.SampledFrom([]string{"none", "wrong", "right", "right", "readkey", "writekey"}).Draw(t, l+".ctx")})
		}
	}
	return c
}

type c19Prot struct {
	writeKey, readKey  string
	readOnly, disabled bool
}

func c19Ctx(loc *core.Location, class string, p c19Prot) *core.Context {
	ctx := newCtx()
	ctx.SetLoc(loc)
	switch class {
	case "wrong":
		ctx.ReadKey, ctx.WriteKey = "bad", "bad"
	case "right":
		ctx.ReadKey, ctx.WriteKey = p.readKey, p.writeKey
	case "readkey":
		ctx.ReadKey = p.readKey
	case "writekey":
		ctx.WriteKey = p.writeKey
	}
	return ctx
}

// c19Do performs one operation; the result is rendered as a string.
func c19Do(loc *core.Location, ctx *core.Context, x c19Op) (res string, err error) {
	evt := func(e core.Map) (string, error) {
		work, cond := loc.ProcessEvent(ctx, e)
		var vals []string
		failed := 0
		if work != nil {
			for _, v := range work.Values {
				vals = append(vals, fmt.Sprint(v))
			}
			for _, er := range work.Children {
				for _, erc := range er.Children {
					for _, era := range erc.Children {
						if era.Disposition != core.Complete {
							failed++
						}
					}
				}
			}
		}
		sort.Strings(vals)
		r := strings.Join(vals, ",")
		if cond != nil {
			return r, fmt.Errorf("%s", cond.Msg)
		}
		if failed > 0 {
			return r, fmt.Errorf("%d action(s) failed", failed)
		}
		return r, nil
	}
	switch x.K {
	case "AddFact":
		_, err = loc.AddFact(ctx, x.Id, core.Map{"v": x.V})
	case "RemFact":
		_, err = loc.RemFact(ctx, x.Id)
	case "AddRule":
		_, err = loc.AddRule(ctx, "rule_"+x.Id, core.Map(mkRule(M{"plain": x.V}, "plain-"+x.V)))
	case "RemRule":
		_, err = loc.RemRule(ctx, "rule_"+x.Id)
	case "EnableRule":
		err = loc.EnableRule(ctx, "rule_"+x.Id, x.V == "x")
	case "SetParents":
		_, err = loc.SetParents(ctx, []string{"parent_" + x.V})
	case "Clear":
		err = loc.Clear(ctx)
	case "EventAdd":
		return evt(core.Map{"do": "add", "id": x.Id})
	case "EventRem":
		return evt(core.Map{"do": "rem", "id": x.Id})
	case "EventAddRule":
		return evt(core.Map{"do": "addrule", "id": "rule_" + x.Id})
	case "EventSearch":
		return evt(core.Map{"do": "search"})
	case "EventPlain":
		return evt(core.Map{"plain": "x"})
	case "EventTrigger":
		// the tick of a one-shot scheduled rule: runs it and then deletes it
		return evt(core.Map{"trigger!": "once"})
	case "JSAddFact":
		var v interface{}
		v, err = loc.RunJavascript(ctx, fmt.Sprintf("Env.AddFact('%s', {v: 'fromjs'}); 'ok'", x.Id), nil, nil, nil)
		if err == nil {
			res = fmt.Sprint(v)
		}
	case "JSSearch":
		var v interface{}
		v, err = loc.RunJavascript(ctx, "Env.Search({v:'?v'}).Found.length", nil, nil, nil)
		if err == nil {
			res = fmt.Sprint(v)
		}
	case "GetFact":
		var f core.Map
		f, err = loc.GetFact(ctx, x.Id)
		if err == nil {
			res = vlib.JSON(refmatch.Canon(map[string]interface{}(f)))
		}
	case "GetRule":
		var f core.Map
		f, err = loc.GetRule(ctx, "rule_"+x.Id)
		if err == nil {
			res = fmt.Sprint(len(f) > 0)
		}
	case "SearchFacts":
		var srs *core.SearchResults
		srs, err = loc.SearchFacts(ctx, core.Map{"v": "?v"}, false)
		if err == nil {
			var rows []string
			for _, sr := range srs.Found {
				rows = append(rows, sr.Id+"="+refmatch.Key(refmatch.Bindings(sr.Bindingss[0])))
			}
			sort.Strings(rows)
			res = strings.Join(rows, ";")
		}
	case "SearchRules":
		var rs map[string]*core.Rule
		rs, err = loc.SearchRules(ctx, core.Map{"plain": "x"}, false)
		if err == nil {
			var ids []string
			for id := range rs {
				ids = append(ids, id)
			}
			sort.Strings(ids)
			res = strings.Join(ids, ",")
		}
	case "ListRules":
		var ids []string
		ids, err = loc.ListRules(ctx, false)
		sort.Strings(ids)
		res = strings.Join(ids, ",")
	case "Query":
		var qr *core.QueryResult
		qr, err = loc.Query(ctx, `{"pattern":{"v":"?v"}}`)
		if err == nil {
			res = fmt.Sprint(len(qr.Bss))
		}
	case "SearchInherited":
		var srs *core.SearchResults
		srs, err = loc.SearchFacts(ctx, core.Map{"v": "?v"}, true)
		if err == nil {
			var rows []string
			for _, sr := range srs.Found {
				rows = append(rows, sr.Id+"="+refmatch.Key(refmatch.Bindings(sr.Bindingss[0])))
			}
			sort.Strings(rows)
			res = strings.Join(rows, ";")
		}
	case "ListRulesInherited":
		var ids []string
		ids, err = loc.ListRules(ctx, true)
		sort.Strings(ids)
		res = strings.Join(ids, ",")
	case "SearchRulesInherited":
		var rs map[string]*core.Rule
		rs, err = loc.SearchRules(ctx, core.Map{"plain": "x"}, true)
		if err == nil {
			var ids []string
			for id := range rs {
				ids = append(ids, id)
			}
			sort.Strings(ids)
			res = strings.Join(ids, ",")
		}
	case "StateSize":
		var n int
		n, err = loc.StateSize(ctx)
		if err == nil {
			res = fmt.Sprint(n)
		}
	case "GetParents":
		var ps []string
		ps, err = loc.GetParents(ctx)
		if err == nil {
			res = strings.Join(ps, ",")
		}
	case "RuleEnabled":
		// (reveals the rule's "disabled" property fact)
		var en bool
		en, err = loc.RuleEnabled(ctx, "r1")
		if err == nil {
			res = fmt.Sprint(en)
		}
	}
	return
}

func c19Snapshot(w *world, name string) string {
	keys, _ := w.storageKeys(name)
	js, _ := json.Marshal(keys)
	return string(js)
}

func contains(xs []string, x string) bool {
	for _, y := range xs {
		if y == x {
			return true
		}
	}
	return false
}

func runC19(c c19Case) *vlib.Outcome {
	o := &vlib.Outcome{}
	if c.Kind != "indexed" && c.Kind != "linear" {
		o.Discard = true
		return o
	}
	w := newWorld(c.Kind, nil, o)
	P, _ := w.open("P")
	U, _ := w.open("U")
	setup := func(loc *core.Location) error {
		ctx := newCtx()
		rules := map[string]M{
			"ra":   {"when": M{"pattern": M{"do": "add", "id": "?i"}}, "action": M{"code": "Env.AddFact(i, {v:'fromAction'}); 'added'"}},
			"rr":   {"when": M{"pattern": M{"do": "rem", "id": "?i"}}, "action": M{"code": "Env.RemFact(i); 'removed'"}},
			"rar":  {"when": M{"pattern": M{"do": "addrule", "id": "?i"}}, "action": M{"code": "Env.AddRule(i, {when:{pattern:{plain:'x'}}, action:{code:\"'plain-a'\"}}); 'ruleadded'"}},
			"rs":   {"when": M{"pattern": M{"do": "search"}}, "action": M{"code": "'found ' + Env.Search({v:'?v'}).Found.length"}},
			"once": {"schedule": "+1000h", "action": M{"code": "'once-ran'"}},
		}
		for id, r := range rules {
			if _, err := loc.AddRule(ctx, id, core.Map(r)); err != nil {
				return err
			}
		}
		_, err := loc.AddFact(ctx, "f1", core.Map{"v": "x"})
		return err
	}
	if err := setup(P); err != nil {
		o.Fail("SETUP", "%v", err)
		return o
	}
	if err := setup(U); err != nil {
		o.Fail("SETUP", "%v", err)
		return o
	}
	// P has a parent PP whose facts and rules need the read key r1; U has the
	// same parent content unprotected
	for _, pn := range []string{"PP", "UP"} {
		pl, err := w.open(pn)
		if err == nil {
			_, err = pl.AddFact(newCtx(), "pf1", core.Map{"v": "parentsecret"})
		}
		if err == nil {
			_, err = pl.AddRule(newCtx(), "prule", core.Map(mkRule(M{"plain": "x"}, "parent-rule")))
		}
		if err == nil && pn == "PP" {
			err = pl.SetProp(newCtx(), "", "readKey", c19ParentKey)
		}
		if err != nil {
			o.Fail("SETUP", "parent %s: %v", pn, err)
			return o
		}
	}
	setParents := func() {
		P.SetParents(c19Ctx(P, "right", c19Prot{}), []string{"PP"})
		U.SetParents(newCtx(), []string{"UP"})
	}
	setParents()
	var prot c19Prot
	parentsIntact := true // P's parent list is [PP] (SetParents / Clear change it)
	refusedWithData, actionWriteProtected := false, false
	covered := map[string]bool{}
	for i, x := range c.Ops {
		when := fmt.Sprintf("[%s] op %d %s under protection %+v", c.Kind, i, vlib.JSON(x), prot)
		if x.K == "protect" {
			kv := strings.SplitN(x.V, "=", 2)
			if len(kv) != 2 {
				continue
			}
			switch kv[0] {
			case "writeKey", "readKey":
				var err error
				if kv[1] == "" {
					err = P.RemProp(newCtx(), "", kv[0])
				} else {
					err = P.SetProp(newCtx(), "", kv[0], kv[1])
				}
				if err != nil {
					o.Fail("PROTECT", "%s: %v", when, err)
					return o
				}
				if kv[0] == "writeKey" {
					prot.writeKey = kv[1]
				} else {
					prot.readKey = kv[1]
				}
			case "readOnly":
				prot.readOnly = kv[1] == "1"
				P.SetReadOnly(newCtx(), prot.readOnly)
			case "disabled":
				prot.disabled = kv[1] == "1"
				v := "yes"
				if prot.disabled {
					v = "no"
				}
				if err := P.SetProp(newCtx(), "", "enabled", v); err != nil {
					o.Fail("PROTECT", "%s: %v", when, err)
					return o
				}
			}
			continue
		}
		ctx := c19Ctx(P, x.Ctx, prot)
		mayWrite := !prot.disabled && !prot.readOnly && (prot.writeKey == "" || ctx.WriteKey == prot.writeKey)
		mayRead := !prot.disabled && (prot.readKey == "" || ctx.ReadKey == prot.readKey)
		mutating := contains(c19Mutating, x.K)
		viaEvent := strings.HasPrefix(x.K, "Event")
		viaJS := strings.HasPrefix(x.K, "JS")
		needsRead := !mutating || viaEvent || x.K == "JSSearch"
		// (GetParents and RuleEnabled reveal the content of property
		// facts - the parent set, a rule's disabled flag - and need
		// the read key like every other read)
		needsWrite := mutating
		if viaJS && prot.disabled {
			needsRead = true // every operation reports a disabled location
		}
		// event dispatch, condition queries and Env.Search include the parents
		inherited := strings.HasSuffix(x.K, "Inherited") || (viaEvent && x.K != "EventTrigger") || x.K == "Query" || x.K == "JSSearch"
		parentReadable := ctx.ReadKey == c19ParentKey
		authorised := (!needsRead || mayRead) && (!needsWrite || mayWrite)
		if inherited && !parentReadable && parentsIntact {
			// the parent's facts and rules need the parent's read key
			authorised = false
		}
		if prot.disabled {
			authorised = false
		}
		covered[fmt.Sprintf("%s/%v/%v/%v/%v/%s", x.K, prot.writeKey != "", prot.readKey != "", prot.readOnly, prot.disabled, x.Ctx)] = true
		before := c19Snapshot(w, "P")
		nBefore := len(w.mustKeys("P"))
		res, err := c19Do(P, ctx, x)
		after := c19Snapshot(w, "P")
		if !authorised {
			o.Label("refused")
			if x.K == "EventTrigger" && mayRead && !mayWrite {
				// the rule runs, but deleting it afterwards needs write
				// access: an error must be reported and the rule stays
				if err == nil {
					o.Fail("UNAUTHORISED_CALL_SUCCEEDED", "%s: the one-shot rule was retired (no error) although the caller may not write", when)
				}
			} else if err == nil && viaEvent && mayRead && res == "" {
				// the event itself may be processed; no rule ran a
				// successful action (e.g. the rules were cleared)
			} else if err == nil {
				o.Fail("UNAUTHORISED_CALL_SUCCEEDED", "%s: the call succeeded (result %q) although it needs read=%v write=%v and the caller may read=%v write=%v", when, res, needsRead, needsWrite, mayRead, mayWrite)
			}
			if after != before {
				o.Fail("UNAUTHORISED_CALL_CHANGED_STATE", "%s: storage changed from %s to %s", when, before, after)
			}
			if err != nil && !mutating && res != "" && needsRead && !mayRead {
				o.Fail("UNAUTHORISED_CALL_REVEALED_DATA", "%s: the call failed (%v) but returned %q", when, err, res)
			}
			if nBefore > 4 && mutating {
				refusedWithData = true
			}
			if (viaEvent || viaJS) && mutating && mayRead && !mayWrite {
				actionWriteProtected = true
			}
		} else {
			// same call on the unprotected twin
			ures, uerr := c19Do(U, c19Ctx(U, "none", c19Prot{}), x)
			if x.K == "StateSize" || x.K == "GetParents" {
				// P also stores its protection properties, and the
				// twins' parents have different names
				res, ures = "", ""
			}
			if x.K == "SetParents" && err == nil {
				parentsIntact = false
			}
			if x.K == "EventTrigger" && err == nil {
				once := core.Map{"schedule": "+1000h", "action": M{"code": "'once-ran'"}}
				ro := prot.readOnly
				P.SetReadOnly(newCtx(), false)
				P.AddRule(c19Ctx(P, "right", prot), "once", once)
				P.SetReadOnly(newCtx(), ro)
				U.AddRule(newCtx(), "once", once)
			}
			if x.K == "Clear" && err == nil {
				parentsIntact = false
				// the keys and the enabled flag are facts of the
				// location: a Clear removes them too
				prot.writeKey, prot.readKey, prot.disabled = "", "", false
				// keep the action rules alive for later event ops
				ro := prot.readOnly
				P.SetReadOnly(newCtx(), false)
				e1, e2 := setup(P), setup(U)
				setParents()
				parentsIntact = true
				P.SetReadOnly(newCtx(), ro)
				if e1 != nil || e2 != nil {
					o.Fail("SETUP", "%s: re-installing the rules after Clear failed: %v %v", when, e1, e2)
				}
			}
			if (err == nil) != (uerr == nil) || res != ures {
				o.Fail("PROTECTED_DIFFERS_FROM_UNPROTECTED", "%s: authorised call returned %q, %v; the unprotected twin returned %q, %v", when, res, err, ures, uerr)
			}
		}
		if o.Failed() {
			return o
		}
	}
	if refusedWithData || actionWriteProtected {
		o.NonTrivial = true
	}
	for k := range covered {
		o.Label("cell:" + strings.SplitN(k, "/", 2)[0])
	}
	return o
}

func (w *world) mustKeys(name string) map[string]string {
	k, _ := w.storageKeys(name)
	return k
}

func TestC19(t *testing.T) {
	vlib.Check(t, "C19", genC19, runC19)
}
