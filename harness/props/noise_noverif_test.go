//go:build !verif

package props

// Without the "verif" build of rulio there are no lock-boundary yield points;
// the noise is then limited to Context.PointHook.
func installYield(f func(string)) {}

const yieldHooksBuilt = false
