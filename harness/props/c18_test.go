package props

// C18 — the service layer is a faithful, encoding-independent rendering of
// the API.
//
// A generated scenario of logical /api/loc/* requests is executed once per
// rendering (query string, form body, JSON body, /api/json envelope, YAML
// body, one /api/sys/util/batch; with and without the /api prefix and with a
// version prefix), each on its own fresh engine through
// HTTPService.ServeHTTP, and once as direct sys.System calls.  Every response
// must be JSON that, normalised, equals the direct result; failures,
// missing / ill-typed parameters and unknown URIs must be HTTP 400.

import (
	"encoding/json"
	"fmt"
	"net/http/httptest"
	"net/url"
	"sort"
	"strings"
	"testing"

	"github.com/Comcast/rulio/core"
	"github.com/Comcast/rulio/service"
	"github.com/Comcast/rulio/sys"
	"gopkg.in/yaml.v2"
	"pgregory.net/rapid"

	"verif/harness/gen"
	"verif/harness/refmatch"
	"verif/harness/vlib"
)

type c18Req struct {
	Op     string `json:"op"`
	Params M      `json:"params"`
}

type c18Case struct {
	Linear bool     `json:"linear"`
	Prefix string   `json:"prefix"` // "/api" | "" | "/v1.2" | "/1.0/api"?
	Reqs   []c18Req `json:"reqs"`
}

var c18Strings = []string{"x", "y", "a b", `q"uote`, `back\slash`, "amp&eq=1", "pct%41", "plus+", "é", "sl/ash", "semi;colon", "hash#", "tab\tnl\n."}
// nested argument shapes (every encoding must carry them unchanged)
var c18Shapes = []interface{}{
	A{A{"home", M{"by": "bike"}}},
	M{"m": M{"l": A{M{"x": 1.0}, A{M{"y": "z"}}}}},
	A{A{}, A{A{"deep"}}},
	A{M{"a": A{A{M{"b": A{"c"}}}}}},
	M{},
}

var c18Ids = []string{"f1", "f2", "r1", `i"d`, "id with space", "pct%2F", "é"}

var c18URIs = map[string]string{
	"addFact": "/loc/facts/add", "getFact": "/loc/facts/get", "remFact": "/loc/facts/rem", "search": "/loc/facts/search",
	"take": "/loc/facts/take", "replace": "/loc/facts/replace", "query": "/loc/facts/query", "addRule": "/loc/rules/add",
	"remRule": "/loc/rules/rem", "listRules": "/loc/rules/list", "disable": "/loc/rules/disable", "enable": "/loc/rules/enable",
	"enabled": "/loc/rules/enabled", "ingest": "/loc/events/ingest", "size": "/loc/admin/size", "clear": "/loc/admin/clear",
	"create": "/loc/admin/create", "getParents": "/loc/parents", "setParents": "/loc/parents", "unknown": "/loc/no/such/thing",
	"emptyPost": "/loc/facts/add", "js": "/loc/util/js",
}

func genC18(t *rapid.T) c18Case {
	var c c18Case
	c.Linear = rapid.Bool().Draw(t, "linear")
	c.Prefix = rapid.SampledFrom([]string{"/api", "/api", "", "/v1.2", "/0.9", "/v0.0.9", "/0.0.9/api", "/v2/api", "/1"}).Draw(t, "prefix")
	n := rapid.IntRange(1, 6).Draw(t, "nreqs")
	str := func(l string) string { return rapid.SampledFrom(c18Strings).Draw(t, l) }
	id := func(l string) string { return rapid.SampledFrom(c18Ids).Draw(t, l) }
	if rapid.IntRange(0, 7).Draw(t, "inheritance?") == 0 {
		// start with a parent that holds a fact, so that inherited
		// searches (and takes) find something that is not the location's own
		js, _ := json.Marshal([]string{"loc two"})
		c.Reqs = append(c.Reqs,
			c18Req{"addFact", M{"location": "loc two", "id": "pf", "fact": M{"k": str("pf.v"), "n": 1.0}}},
			c18Req{"setParents", M{"location": "here", "set": string(js)}},
			c18Req{rapid.SampledFrom([]string{"take", "search", "replace"}).Draw(t, "inh.op"), M{"location": "here", "pattern": M{"k": "?v"}, "inherited": true, "fact": M{"k": "y", "n": 7.0}}})
	}
	for i := 0; i < n; i++ {
		l := fmt.Sprintf("r%d", i)
		op := rapid.SampledFrom([]string{"addFact", "addFact", "addFact", "getFact", "remFact", "search", "search", "take", "replace", "query", "addRule", "addRule",
			"remRule", "listRules", "disable", "enable", "enabled", "ingest", "ingest", "size", "clear", "create", "getParents", "setParents", "unknown", "js"}).Draw(t, l+".op")
		p := M{"location": rapid.SampledFrom([]string{"here", "here", "here", "loc two"}).Draw(t, l+".loc")}
		switch op {
		case "addFact":
			f := M{"k": str(l + ".v"), "n": float64(rapid.IntRange(0, 2).Draw(t, l+".n"))}
			if rapid.IntRange(0, 2).Draw(t, l+".shape?") == 0 {
				f["s"] = gen.DeepCopy(rapid.SampledFrom(c18Shapes).Draw(t, l+".shape"))
			}
			p["fact"] = f
			if rapid.IntRange(0, 3).Draw(t, l+".id?") != 0 {
				p["id"] = id(l + ".id")
			}
		case "getFact", "remFact", "remRule", "disable", "enable", "enabled":
			p["id"] = id(l + ".id")
		case "search", "take":
			p["pattern"] = rapid.SampledFrom([]M{{"k": "?v"}, {"k": "x"}, {"n": 1.0, "k": "?v"}}).Draw(t, l+".pat")
			if s := str(l + ".pv"); rapid.IntRange(0, 2).Draw(t, l+".const?") == 0 {
				p["pattern"] = M{"k": s}
			}
			if rapid.IntRange(0, 3).Draw(t, l+".inh?") == 0 {
				p["inherited"] = rapid.SampledFrom([]interface{}{"true", "false", true}).Draw(t, l+".inh")
			}
		case "replace":
			p["pattern"] = M{"k": str(l + ".pv")}
			p["fact"] = M{"k": str(l + ".v"), "n": 7.0}
		case "query":
			p["query"] = M{"and": A{M{"pattern": M{"k": "?v"}}, M{"pattern": M{"n": "?n", "k": "?v"}}}}
		case "addRule":
			p["rule"] = M{"when": M{"pattern": M{"e": "?x"}}, "condition": M{"pattern": M{"k": "?x"}}, "action": M{"code": "'fired ' + x"}}
			if rapid.IntRange(0, 3).Draw(t, l+".id?") != 0 {
				p["id"] = id(l + ".id")
			}
		case "js":
			p["code"] = rapid.SampledFrom([]string{"1+2", "'a' + 'b'", "({a: 1, b: [true, null]})", "[1, 'x']", "null", "var q = 5; q * 2", "'" + "é&=%" + "'"}).Draw(t, l+".code")
			switch rapid.IntRange(0, 5).Draw(t, l+".badcode") {
			case 0:
				delete(p, "code")
			case 1:
				p["code"] = rapid.SampledFrom([]interface{}{5.0, true, M{"x": 1.0}}).Draw(t, l+".illtypedcode")
			case 2:
				p["code"] = "((("
			case 4:
				// code as an array of lines (documented for multi-line
				// scripts, as in a rule's action)
				p["code"] = A{"var a = 1 // one", "a + 1"}
			case 3:
				// a script that needs a library of the location's control
				p["code"] = "answer() + 1"
				p["libraries"] = A{"lib0"}
			}
		case "ingest":
			ev := M{"e": str(l + ".e")}
			if rapid.IntRange(0, 2).Draw(t, l+".shape?") == 0 {
				ev["s"] = gen.DeepCopy(rapid.SampledFrom(c18Shapes).Draw(t, l+".shape"))
			}
			p["event"] = ev
		case "setParents":
			js, _ := json.Marshal([]string{"loc two"})
			p["set"] = string(js)
		}
		// error classes
		switch rapid.IntRange(0, 11).Draw(t, l+".bad") {
		case 0:
			delete(p, "location")
		case 1:
			for _, k := range []string{"fact", "rule", "pattern", "query", "event"} {
				if _, have := p[k]; have {
					p[k] = rapid.SampledFrom([]interface{}{"not json", A{"x"}, 5.0, true}).Draw(t, l+".illtyped")
				}
			}
			if _, have := p["set"]; have {
				// (only encodings that can carry a non-string deliver these)
				p["set"] = rapid.SampledFrom([]interface{}{5.0, true, A{"loc two", 3.0}, A{A{"loc two"}}, M{"p": "loc two"}, "not json",
					// (JSON text of a list whose elements are not all names)
					"[null]", `["loc two", null]`, "[1]"}).Draw(t, l+".illtypedset")
			}
		case 3:
			// an empty value for a structured parameter
			for _, k := range []string{"fact", "rule", "pattern", "query", "event"} {
				if _, have := p[k]; have {
					p[k] = ""
				}
			}
		case 4:
			if rapid.Bool().Draw(t, l+".emptybody") {
				op = "emptyPost"
			}
		case 5:
			// an ill-typed id (an easy mistake: `id: 5` in YAML)
			if _, have := p["id"]; have {
				p["id"] = rapid.SampledFrom([]interface{}{5.0, true, M{"x": 1.0}}).Draw(t, l+".illtypedid")
			}
		case 6:
			// an ill-typed uri (a body may carry its own)
			if rapid.Bool().Draw(t, l+".baduri") {
				p["uri"] = rapid.SampledFrom([]interface{}{5.0, true, M{"x": 1.0}}).Draw(t, l+".illtypeduri")
			}
		case 2:
			for _, k := range []string{"fact", "rule", "pattern", "query", "event", "id"} {
				if _, have := p[k]; have && op != "addFact" && op != "addRule" {
					delete(p, k)
				} else if k != "id" {
					delete(p, k)
				}
			}
		}
		c.Reqs = append(c.Reqs, c18Req{op, p})
	}
	return c
}

func c18Engine(linear bool) (*sys.System, *service.HTTPService, error) {
	conf := sys.ExampleConfig()
	conf.UnindexedState = linear
	cont := sys.ExampleSystemControl()
	cont.Timing = false
	cont.LocationTTL = sys.Forever
	cont.DefaultLocControl = quietControl()
	cont.DefaultLocControl.Libraries = map[string]string{"lib0": "function answer() { return 41; }"}
	s, err := sys.NewSystem(newCtx(), *conf, *cont, nullCron{})
	if err != nil {
		return nil, nil, err
	}
	hs, err := service.NewHTTPService(newCtx(), &service.Service{System: s})
	return s, hs, err
}

// c18Result is the normalised outcome of one request.
type c18Result struct {
	OK   bool
	Data string
}

func normIds(ids []string) string { sort.Strings(ids); return strings.Join(ids, "|") }

func normBindings(bss []map[string]interface{}) string {
	var ks []string
	for _, b := range bss {
		ks = append(ks, refmatch.Key(b))
	}
	sort.Strings(ks)
	return strings.Join(ks, "|")
}

// c18Direct executes the request through sys.System.
func c18Direct(s *sys.System, r c18Req, gens map[string]bool) c18Result {
	p := r.Params
	fail := c18Result{}
	loc, ok := p["location"].(string)
	if !ok {
		return fail
	}
	str := func(k string) (string, bool) { v, ok := p[k].(string); return v, ok }
	if v, have := p["id"]; have {
		if _, isString := v.(string); !isString {
			return fail // an ill-typed id
		}
	}
	if _, have := p["uri"]; have {
		return fail // (only generated ill-typed)
	}
	mp := func(k string) (string, bool) {
		m, ok := p[k].(M)
		if !ok {
			return "", false
		}
		bs, _ := json.Marshal(m)
		return string(bs), true
	}
	ctx := newCtx()
	switch r.Op {
	case "addFact":
		f, ok := mp("fact")
		if !ok {
			return fail
		}
		id, _ := str("id")
		got, err := s.AddFact(ctx, loc, id, f)
		if err != nil {
			return fail
		}
		if id == "" {
			gens[got] = true
			got = "<gen>"
		}
		return c18Result{true, got}
	case "getFact":
		id, ok := str("id")
		if !ok {
			return fail
		}
		js, err := s.GetFact(ctx, loc, id)
		if err != nil {
			return fail
		}
		var m M
		json.Unmarshal([]byte(js), &m)
		return c18Result{true, vlib.JSON(m) + " id=" + id}
	case "remFact", "remRule":
		id, ok := str("id")
		if !ok {
			return fail
		}
		var err error
		if r.Op == "remFact" {
			_, err = s.RemFact(ctx, loc, id)
		} else {
			_, err = s.RemRule(ctx, loc, id)
		}
		if err != nil {
			return fail
		}
		return c18Result{true, id}
	case "search", "take", "replace":
		pat, ok := mp("pattern")
		if !ok {
			return fail
		}
		inh := false
		switch v := p["inherited"].(type) {
		case bool:
			inh = v
		case string:
			inh = strings.ToLower(v) == "true"
		case nil:
		default:
			return fail
		}
		var fact string
		if r.Op == "replace" {
			if fact, ok = mp("fact"); !ok {
				return fail
			}
		}
		srs, err := s.SearchFacts(ctx, loc, pat, inh)
		if err != nil {
			return fail
		}
		var rows []string
		for _, sr := range srs.Found {
			id := sr.Id
			if gens[id] {
				id = "<gen>"
			}
			var bs []map[string]interface{}
			for _, b := range sr.Bindingss {
				bs = append(bs, b)
			}
			rows = append(rows, id+"="+normBindings(bs))
			if r.Op != "search" {
				// a take that cannot remove what it reports as taken
				// (e.g. a parent's fact found through inheritance)
				// is a failing operation
				if _, err := s.RemFact(ctx, loc, sr.Id); err != nil {
					return fail
				}
			}
		}
		sort.Strings(rows)
		if r.Op == "replace" {
			id, _ := str("id")
			got, err := s.AddFact(ctx, loc, id, fact)
			if err != nil {
				return fail
			}
			if id == "" {
				gens[got] = true
			}
			return c18Result{true, "<gen>"}
		}
		return c18Result{true, strings.Join(rows, ";")}
	case "query":
		q, ok := mp("query")
		if !ok {
			return fail
		}
		qr, err := s.Query(ctx, loc, q)
		if err != nil {
			return fail
		}
		var bs []map[string]interface{}
		for _, b := range qr.Bss {
			bs = append(bs, b)
		}
		return c18Result{true, normBindings(bs)}
	case "addRule":
		rl, ok := mp("rule")
		if !ok {
			return fail
		}
		id, _ := str("id")
		got, err := s.AddRule(ctx, loc, id, rl)
		if err != nil {
			return fail
		}
		if id == "" {
			gens[got] = true
			got = "<gen>"
		}
		return c18Result{true, got}
	case "listRules":
		ids, err := s.ListRules(ctx, loc, false)
		if err != nil {
			return fail
		}
		for i, id := range ids {
			if gens[id] {
				ids[i] = "<gen>"
			}
		}
		return c18Result{true, normIds(ids)}
	case "disable", "enable":
		id, ok := str("id")
		if !ok {
			return fail
		}
		if err := s.EnableRule(ctx, loc, id, r.Op == "enable"); err != nil {
			return fail
		}
		return c18Result{true, id}
	case "enabled":
		id, ok := str("id")
		if !ok {
			return fail
		}
		en, err := s.RuleEnabled(ctx, loc, id)
		if err != nil {
			return fail
		}
		return c18Result{true, fmt.Sprint(id, en)}
	case "js":
		code, ok := str("code")
		if lines, isLines := p["code"].(A); isLines {
			// lines of code
			code, ok = "", true
			for _, l := range lines {
				ls, isStr := l.(string)
				if !isStr {
					return fail
				}
				code += ls + "\n"
			}
		}
		if !ok {
			return fail
		}
		bs := core.Bindings{}
		var libs []string
		if ls, given := p["libraries"].(A); given {
			for _, l := range ls {
				if s, ok := l.(string); ok {
					libs = append(libs, s)
				}
			}
		}
		x, err := s.RunJavascript(ctx, loc, code, libs, &bs, nil)
		if err != nil {
			return fail
		}
		return c18Result{true, vlib.JSON(x)}
	case "ingest":
		ev, ok := mp("event")
		if !ok {
			return fail
		}
		work, err := s.ProcessEvent(ctx, loc, ev)
		if err != nil {
			return fail
		}
		var vals []string
		for _, v := range work.Values {
			vals = append(vals, fmt.Sprint(v))
		}
		sort.Strings(vals)
		return c18Result{true, strings.Join(vals, "|")}
	case "stats":
		// (the counters themselves belong to the cached instance)
		if _, err := s.GetLocationStats(ctx, loc); err != nil {
			return fail
		}
		return c18Result{true, "okay"}
	case "clearStats":
		if err := s.ClearLocationStats(ctx, loc); err != nil {
			return fail
		}
		return c18Result{true, "okay"}
	case "getRule":
		id, _ := str("id")
		js, err := s.GetRule(ctx, loc, id)
		if err != nil {
			return fail
		}
		return c18Result{true, js}
	case "searchRules":
		ev, ok := mp("event")
		if !ok {
			return fail
		}
		rs, err := s.SearchRules(ctx, loc, ev, p["inherited"] == true)
		if err != nil {
			return fail
		}
		var ids []string
		for id := range rs {
			ids = append(ids, id)
		}
		sort.Strings(ids)
		return c18Result{true, strings.Join(ids, ",")}
	case "size":
		n, err := s.GetSize(ctx, loc)
		if err != nil {
			return fail
		}
		return c18Result{true, fmt.Sprint(n)}
	case "clear":
		if err := s.ClearLocation(ctx, loc); err != nil {
			return fail
		}
		return c18Result{true, "okay"}
	case "delete":
		if err := s.DeleteLocation(ctx, loc); err != nil {
			return fail
		}
		return c18Result{true, "okay"}
	case "create":
		created, err := s.CreateLocation(ctx, loc)
		if err != nil || !created {
			return fail
		}
		return c18Result{true, "okay"}
	case "getParents":
		ps, err := s.GetParents(ctx, loc)
		if err != nil {
			return fail
		}
		return c18Result{true, normIds(ps)}
	case "setParents":
		js, ok := str("set")
		if !ok {
			return fail
		}
		// a list of names (decoding into []string would turn a null
		// into a parent called "")
		var raw []interface{}
		if json.Unmarshal([]byte(js), &raw) != nil {
			return fail
		}
		var ps []string
		for _, x := range raw {
			name, isString := x.(string)
			if !isString {
				return fail
			}
			ps = append(ps, name)
		}
		if _, err := s.SetParents(ctx, loc, ps); err != nil {
			return fail
		}
		return c18Result{true, normIds(ps)}
	}
	return fail
}

// c18Interpret turns the JSON body of a response into the normalised form.
func c18Interpret(op string, body string, p M, gens map[string]bool) (string, error) {
	var v interface{}
	dec := json.NewDecoder(strings.NewReader(body))
	if err := dec.Decode(&v); err != nil {
		return "", fmt.Errorf("response is not JSON: %v: %q", err, body)
	}
	m, _ := v.(map[string]interface{})
	genId := func(id string) string {
		if gens[id] {
			return "<gen>"
		}
		return id
	}
	noteGen := func(id string) string {
		if given, _ := p["id"].(string); given == "" {
			gens[id] = true
			return "<gen>"
		}
		return id
	}
	switch op {
	case "addFact", "addRule", "replace":
		id, ok := m["id"].(string)
		if !ok {
			return "", fmt.Errorf("no id in %q", body)
		}
		if op == "replace" {
			noteGen(id)
			return "<gen>", nil
		}
		return noteGen(id), nil
	case "getFact":
		f, _ := m["fact"].(map[string]interface{})
		id, _ := m["id"].(string)
		return vlib.JSON(f) + " id=" + id, nil
	case "remFact", "remRule":
		r, _ := m["removed"].(string)
		return r, nil
	case "search", "take":
		found, _ := m["Found"].([]interface{})
		var rows []string
		for _, x := range found {
			fm, _ := x.(map[string]interface{})
			id, _ := fm["Id"].(string)
			var bs []map[string]interface{}
			bl, _ := fm["Bindingss"].([]interface{})
			for _, b := range bl {
				bm, _ := b.(map[string]interface{})
				bs = append(bs, bm)
			}
			rows = append(rows, genId(id)+"="+normBindings(bs))
		}
		sort.Strings(rows)
		return strings.Join(rows, ";"), nil
	case "query":
		bl, _ := m["Bss"].([]interface{})
		var bs []map[string]interface{}
		for _, b := range bl {
			bm, _ := b.(map[string]interface{})
			bs = append(bs, bm)
		}
		return normBindings(bs), nil
	case "listRules":
		il, _ := m["ids"].([]interface{})
		var ids []string
		for _, x := range il {
			ids = append(ids, genId(fmt.Sprint(x)))
		}
		return normIds(ids), nil
	case "disable":
		return fmt.Sprint(m["disabled"]), nil
	case "enable":
		return fmt.Sprint(m["enabled"]), nil
	case "enabled":
		return fmt.Sprint(m["ruleId"], m["enabled"]), nil
	case "ingest":
		res, _ := m["result"].(map[string]interface{})
		vl, _ := res["values"].([]interface{})
		var vals []string
		for _, x := range vl {
			vals = append(vals, fmt.Sprint(x))
		}
		sort.Strings(vals)
		return strings.Join(vals, "|"), nil
	case "js":
		return vlib.JSON(m["result"]), nil
	case "size":
		return fmt.Sprint(m["size"]), nil
	case "clear", "create":
		return fmt.Sprint(m["status"]), nil
	case "getParents", "setParents":
		il, _ := m["result"].([]interface{})
		var ids []string
		for _, x := range il {
			ids = append(ids, fmt.Sprint(x))
		}
		return normIds(ids), nil
	}
	return "", fmt.Errorf("unknown op")
}

// c18Render builds the HTTP request for one rendering.
func c18Render(kind, prefix string, r c18Req) (method, target, body string, ok bool) {
	uri := prefix + c18URIs[r.Op]
	jsonParam := func(v interface{}) string {
		if s, isStr := v.(string); isStr {
			return s // ill-typed on purpose: sent raw
		}
		bs, _ := json.Marshal(v)
		return string(bs)
	}
	form := url.Values{}
	for k, v := range r.Params {
		switch k {
		case "fact", "rule", "pattern", "query", "event", "libraries":
			form.Set(k, jsonParam(v))
		default:
			form.Set(k, fmt.Sprint(v))
		}
	}
	full := M{}
	for k, v := range r.Params {
		full[k] = v
	}
	// a query string or a form delivers every parameter as a string: an
	// ill-typed id or uri cannot be expressed there
	stringsOnly := true
	for _, k := range []string{"id", "uri", "code"} {
		if v, have := r.Params[k]; have {
			if _, isStr := v.(string); !isStr {
				stringsOnly = false
			}
		}
	}
	switch kind {
	case "query":
		if !stringsOnly {
			return "", "", "", false
		}
		return "GET", uri + "?" + form.Encode(), "", true
	case "form":
		if len(form) == 0 || !stringsOnly {
			return "", "", "", false
		}
		return "POST", uri, form.Encode(), true
	case "json":
		bs, _ := json.Marshal(full)
		return "POST", uri, string(bs), true
	case "envelope":
		if _, illTyped := full["uri"]; !illTyped {
			full["uri"] = uri
		}
		bs, _ := json.Marshal(full)
		return "POST", prefixOnly(prefix) + "/json", string(bs), true
	case "yaml":
		bs, err := yaml.Marshal(map[string]interface{}(full))
		if err != nil || !strings.Contains(string(bs), "\n") || strings.HasPrefix(string(bs), "{") {
			return "", "", "", false
		}
		return "POST", uri, string(bs), true
	}
	return "", "", "", false
}

func prefixOnly(prefix string) string {
	if prefix == "" {
		return "/api"
	}
	if strings.HasSuffix(prefix, "/api") {
		return prefix
	}
	return prefix + "/api"
}

func needsEscaping(x interface{}) bool {
	return gen.Has(x, func(y interface{}) bool {
		s, ok := y.(string)
		return ok && strings.ContainsAny(s, "\"\\&=%+ é/;#\t\n")
	})
}

func runC18(c c18Case) *vlib.Outcome {
	o := &vlib.Outcome{}
	// direct
	ds, _, err := c18Engine(c.Linear)
	if err != nil {
		o.Fail("ENGINE", "%v", err)
		return o
	}
	dgens := map[string]bool{}
	var want []c18Result
	stateful := 0
	for _, r := range c.Reqs {
		if r.Op == "unknown" || r.Op == "emptyPost" {
			want = append(want, c18Result{})
			continue
		}
		res := c18Direct(ds, r, dgens)
		want = append(want, res)
		if res.OK {
			stateful++
		}
		if needsEscaping(r.Params) {
			o.NonTrivial = true
		}
	}
	if len(c.Reqs) >= 3 && stateful >= 3 {
		o.NonTrivial = true
	}
	for _, kind := range []string{"query", "form", "json", "envelope", "yaml", "batch"} {
		_, hs, err := c18Engine(c.Linear)
		if err != nil {
			o.Fail("ENGINE", "%v", err)
			return o
		}
		gens := map[string]bool{}
		if kind == "batch" {
			var reqs A
			for _, r := range c.Reqs {
				m := M{"uri": c.Prefix + c18URIs[r.Op]}
				for k, v := range r.Params {
					if r.Op != "emptyPost" {
						m[k] = v
					}
				}
				reqs = append(reqs, m)
			}
			bs, _ := json.Marshal(M{"requests": reqs})
			rec := httptest.NewRecorder()
			var perr interface{}
			func() {
				defer func() { perr = recover() }()
				hs.ServeHTTP(rec, httptest.NewRequest("POST", prefixOnly(c.Prefix)+"/sys/util/batch", strings.NewReader(string(bs))))
			}()
			if perr != nil {
				o.Fail("SERVICE_PANIC", "batch %s panicked: %v", bs, perr)
				return o
			}
			var results []json.RawMessage
			if err := json.Unmarshal(rec.Body.Bytes(), &results); err != nil {
				o.Fail("BATCH_NOT_JSON", "batch of %s returned a body that is not a JSON array: %v: %q", bs, err, truncate(rec.Body.String(), 600))
				return o
			}
			if len(results) != len(c.Reqs) {
				o.Fail("BATCH_LENGTH", "batch of %d requests returned %d results: %q", len(c.Reqs), len(results), truncate(rec.Body.String(), 600))
				return o
			}
			for i, r := range c.Reqs {
				var em map[string]interface{}
				isErr := json.Unmarshal(results[i], &em) == nil && em["error"] != nil && len(em) == 1
				desc := fmt.Sprintf("[batch] request %d %s %s", i, r.Op, vlib.JSON(r.Params))
				c18Compare(o, desc, r, want[i], !isErr, string(results[i]), gens)
				if o.Failed() {
					return o
				}
			}
			continue
		}
		for i, r := range c.Reqs {
			method, target, body, ok := c18Render(kind, c.Prefix, r)
			if r.Op == "emptyPost" {
				method, target, body, ok = "POST", c.Prefix+c18URIs[r.Op], "", true
			}
			if !ok {
				// this rendering cannot express the request (e.g. a
				// form without parameters): run it as JSON to keep
				// the engine's state in step
				method, target, body, _ = c18Render("json", c.Prefix, r)
			}
			rec := httptest.NewRecorder()
			var perr interface{}
			func() {
				defer func() { perr = recover() }()
				req := httptest.NewRequest(method, target, strings.NewReader(body))
				if method == "POST" {
					req.Header.Set("Content-Type", "application/x-www-form-urlencoded")
				}
				hs.ServeHTTP(rec, req)
			}()
			desc := fmt.Sprintf("[%s] request %d %s %s %s body %q", kind, i, r.Op, method, target, truncate(body, 300))
			if perr != nil {
				o.Fail("SERVICE_PANIC", "%s panicked: %v", desc, perr)
				return o
			}
			c18Compare(o, desc, r, want[i], rec.Code == 200, rec.Body.String(), gens)
			if rec.Code != 200 && rec.Code != 400 {
				o.Fail("UNEXPECTED_STATUS", "%s: HTTP status %d", desc, rec.Code)
			}
			if o.Failed() {
				return o
			}
		}
	}
	return o
}

func c18Compare(o *vlib.Outcome, desc string, r c18Req, want c18Result, gotOK bool, body string, gens map[string]bool) {
	if !want.OK {
		if gotOK {
			o.Fail("ERROR_AS_SUCCESS", "%s: the direct call fails (or the request is malformed) but the service answered with success: %q", desc, truncate(body, 300))
		}
		return
	}
	if !gotOK {
		o.Fail("SUCCESS_AS_ERROR", "%s: the direct call succeeds (%q) but the service answered with an error: %q", desc, want.Data, truncate(body, 300))
		return
	}
	got, err := c18Interpret(r.Op, body, r.Params, gens)
	if err != nil {
		o.Fail("BAD_RESPONSE", "%s: %v", desc, err)
		return
	}
	if got != want.Data {
		o.Fail("RESULT_DIFFERS", "%s: service result %q, direct System result %q (body %q)", desc, got, want.Data, truncate(body, 300))
	}
}

func TestC18(t *testing.T) {
	vlib.Check(t, "C18", genC18, runC18)
}

func FuzzC18(f *testing.F) { vlib.Fuzz(f, "C18", genC18, runC18) }
