package props

// C09 — locations are isolated except through declared parents.
//
// Histories over 3-5 locations: SetParents (forests, multi-parent nodes,
// self / 2- / 3-cycles as a labelled class), facts and rules spread over the
// locations, child-side disabling of inherited rules.  After every operation
// the full observation vector of *every* location (search with and without
// inheritance, rule list, event dispatch, query) is compared with the model,
// whose ancestor closure is evaluated at observation time.  A parent chain
// that loops must yield an error, not a crash or a hang.

import (
	"fmt"
	"testing"
	"time"

	"github.com/Comcast/rulio/core"
	"github.com/Comcast/rulio/sys"
	"pgregory.net/rapid"

	"verif/harness/vlib"
)

type c09Case struct {
	Kind  string `json:"kind"`
	NLocs int    `json:"nlocs"`
	Loops bool   `json:"loops"` // SetParents may create cycles
	Ops   []op   `json:"ops"`
	// Sys: 0 = the locations are served by a core.SimpleLocationProvider;
	// 1-3 = by a sys.System (which is then the provider that resolves the
	// parents) with location TTL forever / never / 1 ms; with TTL never
	// every request works on a location freshly loaded from storage.
	Sys int `json:"sys,omitempty"`
}

var c09Locs = []string{"A", "B", "C", "D", "E"}

func genC09(t *rapid.T) c09Case {
	var c c09Case
	c.Kind = rapid.SampledFrom([]string{"indexed", "linear"}).Draw(t, "kind")
	c.NLocs = rapid.IntRange(3, 5).Draw(t, "nlocs")
	c.Loops = rapid.IntRange(0, 3).Draw(t, "loops?") == 0
	// (3 = a TTL of 1 ms is not generated any more: the harness works on
	// instances it got from System.GetLocation, which does not pin them;
	// with a TTL that can run out between two steps of one observation,
	// the cache may already hold another instance while the harness still
	// writes through the old one - a staleness no request through the
	// System can produce.  C17 covers the 1 ms TTL through System requests.)
	c.Sys = rapid.SampledFrom([]int{0, 0, 1, 2}).Draw(t, "sys")
	locs := c09Locs[:c.NLocs]
	n := rapid.IntRange(3, 22).Draw(t, "nops")
	bulkLeft := 0
	if rapid.IntRange(0, 5).Draw(t, "bulk?") == 0 {
		bulkLeft = 2
	}
	for i := 0; i < n; i++ {
		l := fmt.Sprintf("op%d", i)
		li := rapid.IntRange(0, c.NLocs-1).Draw(t, l+".loc")
		loc := locs[li]
		k := rapid.IntRange(1, 2).Draw(t, l+".n")
		switch rapid.SampledFrom([]string{"parents", "parents", "parents", "fact", "fact", "fact", "remFact", "rule", "rule", "remRule", "disable", "enable", "dupFact", "bulk", "bulk", "parentsFact", "remParentsFact"}).Draw(t, l+".kind") {
		case "parents":
			var ps []string
			np := rapid.SampledFrom([]int{0, 1, 1, 1, 2}).Draw(t, l+".np")
			for j := 0; j < np; j++ {
				var pi int
				if c.Loops {
					pi = rapid.IntRange(0, c.NLocs-1).Draw(t, fmt.Sprintf("%s.p%d", l, j))
				} else {
					// only "later" locations as parents: a forest/DAG
					if li+1 > c.NLocs-1 {
						continue
					}
					pi = rapid.IntRange(li+1, c.NLocs-1).Draw(t, fmt.Sprintf("%s.p%d", l, j))
				}
				dup := false
				for _, p := range ps {
					if p == locs[pi] {
						dup = true
					}
				}
				if !dup {
					ps = append(ps, locs[pi])
				}
			}
			c.Ops = append(c.Ops, op{K: "setParents", Loc: loc, L: ps})
		case "fact":
			c.Ops = append(c.Ops, op{K: "addFact", Loc: loc, Id: fmt.Sprintf("%s_f%d", loc, k), Doc: M{"at": loc, "v": rapid.SampledFrom([]string{"x", "y"}).Draw(t, l+".v")}})
		case "parentsFact":
			// the parents property written as what it is: an ordinary
			// property fact (towards later locations only)
			var ps A
			if li+1 <= c.NLocs-1 {
				ps = A{locs[rapid.IntRange(li+1, c.NLocs-1).Draw(t, l+".pf")]}
			}
			c.Ops = append(c.Ops, op{K: "addFact", Loc: loc, Id: "", Doc: M{"!parents": ps}})
		case "remParentsFact":
			c.Ops = append(c.Ops, op{K: "remFact", Loc: loc, Id: "!.parents"})
		case "bulk":
			// many facts at once: inherited results that outgrow the
			// buffers their merging starts with (in one case of six, at
			// most twice: every later observation pays for them)
			if bulkLeft == 0 {
				continue
			}
			bulkLeft--
			c.Ops = append(c.Ops, op{K: "bulk", Loc: loc, N: int64(rapid.SampledFrom([]int{20, 33, 45, 64, 70}).Draw(t, l+".count"))})
		case "dupFact":
			// deliberately not qualified by location
			c.Ops = append(c.Ops, op{K: "addFact", Loc: loc, Id: "shared", Doc: M{"at": loc, "v": "shared"}})
		case "remFact":
			c.Ops = append(c.Ops, op{K: "remFact", Loc: loc, Id: fmt.Sprintf("%s_f%d", loc, k)})
		case "rule":
			c.Ops = append(c.Ops, op{K: "addRule", Loc: loc, Id: fmt.Sprintf("%s_r%d", loc, k), Doc: M{"go": rapid.SampledFrom([]string{"1", "?g"}).Draw(t, l+".when")},
				B: rapid.IntRange(0, 2).Draw(t, l+".env") == 0})
		case "remRule":
			c.Ops = append(c.Ops, op{K: "remRule", Loc: loc, Id: fmt.Sprintf("%s_r%d", loc, k)})
		case "disable", "enable":
			// a (possibly inherited) rule id, disabled in `loc`
			other := locs[rapid.IntRange(0, c.NLocs-1).Draw(t, l+".owner")]
			c.Ops = append(c.Ops, op{K: "enable", Loc: loc, Id: fmt.Sprintf("%s_r%d", other, k), B: rapid.Bool().Draw(t, l+".on")})
		}
	}
	return c
}

func runC09(c c09Case) *vlib.Outcome {
	o := &vlib.Outcome{}
	if c.NLocs < 2 || c.NLocs > 5 || (c.Kind != "indexed" && c.Kind != "linear") {
		o.Discard = true
		return o
	}
	locs := c09Locs[:c.NLocs]
	w := newWorld(c.Kind, nil, o)
	if c.Sys > 0 {
		ttl := map[int]time.Duration{1: sys.Forever, 2: sys.Never, 3: time.Millisecond}[c.Sys]
		s, err := c17System(c.Kind == "linear", false, ttl)
		if err != nil {
			o.Fail("NEWSYSTEM", "%v", err)
			return o
		}
		w.engine = s
		if st, err := s.PeekStorage(newCtx()); err == nil && st != nil {
			w.store = st
		}
		o.Label(fmt.Sprintf("sys-%d", c.Sys))
	}
	for _, l := range locs {
		if _, err := w.open(l); err != nil {
			o.Fail("OPEN", "%v", err)
			return o
		}
	}
	// refresh: what a request through the System would work on
	refresh := func() bool {
		if c.Sys < 2 {
			return true
		}
		for _, l := range locs {
			loc, err := w.build(l)
			if err != nil {
				o.Fail("GETLOCATION", "System.GetLocation(%q) failed: %v", l, err)
				return false
			}
			w.locs[l] = loc
		}
		return true
	}
	notFound := func(err error) bool { _, nf := err.(*core.NotFoundError); return nf }
	patterns := []M{{"at": "?where"}, {"v": "x"}}
	events := []M{{"go": "1"}, {"go": "2"}}
	changedParentsThenInherited, deep, loop := false, false, false
	envRule := map[string]bool{}
	for i, x := range c.Ops {
		if _, have := w.locs[x.Loc]; !have {
			continue
		}
		when := fmt.Sprintf("[%s n=%d sys=%d] after op %d %s", c.Kind, c.NLocs, c.Sys, i, vlib.JSON(x))
		if !refresh() {
			return o
		}
		_, inModel := w.model[x.Loc].Items[x.Id]
		switch x.K {
		case "setParents":
			if err := w.setParents(x.Loc, x.L); err != nil {
				o.Fail("SETPARENTS_ERROR", "%s: SetParents failed: %v", when, err)
			}
			changedParentsThenInherited = true
		case "addFact":
			if r := w.addFact(x.Loc, x.Id, x.Doc); r.Err != nil {
				o.Fail("ADD_ERROR", "%s: %v", when, r.Err)
			}
		case "bulk":
			if x.N < 1 || x.N > 200 {
				continue
			}
			for k := int64(0); k < x.N; k++ {
				if r := w.addFact(x.Loc, fmt.Sprintf("%s_b%d", x.Loc, k), M{"at": x.Loc, "v": "bulk"}); r.Err != nil {
					o.Fail("ADD_ERROR", "%s: %v", when, r.Err)
					break
				}
			}
			o.Label("bulk-facts")
		case "remFact":
			// (the System installs the cron hooks, with which removing an
			// id that is not there reports not-found)
			if r := w.remFact(x.Loc, x.Id); r.Err != nil && !(c.Sys > 0 && !inModel && notFound(r.Err)) {
				o.Fail("REM_ERROR", "%s: %v", when, r.Err)
			}
		case "addRule":
			rule := mkRule(x.Doc, x.Id)
			if x.B {
				// a condition that searches (with inheritance) and an
				// action that uses the location functions: both must
				// act on the location the event was sent to
				rule["condition"] = M{"pattern": M{"at": "?w"}}
				rule["action"] = M{"code": "Env.AddFact('made_' + ruleId, {made_in: Env.Location}); Env.Location"}
			}
			if r := w.addRule(x.Loc, x.Id, rule); r.Err != nil {
				o.Fail("ADDRULE_ERROR", "%s: %v", when, r.Err)
			} else {
				envRule[x.Id] = x.B
			}
		case "remRule":
			if r := w.remRule(x.Loc, x.Id); r.Err != nil && !(c.Sys > 0 && !inModel && notFound(r.Err)) {
				o.Fail("REMRULE_ERROR", "%s: %v", when, r.Err)
			}
		case "enable":
			_, flagged := w.model[x.Loc].Items[propId(x.Id, "disabled")]
			if r := w.enableRule(x.Loc, x.Id, x.B); r.Err != nil && !(c.Sys > 0 && x.B && !flagged && notFound(r.Err)) {
				o.Fail("ENABLE_ERROR", "%s: %v", when, r.Err)
			}
		}
		if o.Failed() {
			return o
		}
		// observe every location
		if !refresh() {
			return o
		}
		for _, ln := range locs {
			// (a location reached through two parents is listed once
			// here; each comparison below decides by itself whether such
			// a location contributes anything, in which case the
			// observation is unspecified)
			order, ok := w.ancestorsFor(ln, func(*mLoc) bool { return false })
			_, strict := w.ancestors(ln)
			lwhen := when + " observing " + ln
			if ok && len(order) >= 3 {
				deep = true
			}
			if !ok && w.hasLoop(ln) {
				loop = true
				// a looping parent chain: inherited observations must
				// report an error (and not crash or hang)
				if _, err := w.locs[ln].SearchFacts(newCtx(), core.Map{"at": "?w"}, true); err == nil {
					o.Fail("LOOP_NOT_REPORTED", "%s: inherited search in a location whose parent chain loops returned no error", lwhen)
				}
				ectx := newCtx()
				ectx.SetLoc(w.locs[ln])
				if _, cond := w.locs[ln].ProcessEvent(ectx, core.Map{"go": "1"}); cond == nil {
					o.Fail("LOOP_NOT_REPORTED", "%s: event dispatch in a location whose parent chain loops returned no error", lwhen)
				}
				if _, err := w.locs[ln].ListRules(newCtx(), true); err == nil {
					o.Fail("LOOP_NOT_REPORTED", "%s: the inherited rule list of a location whose parent chain loops returned no error", lwhen)
				}
			}
			// An embedded rule evaluated at ln with a context that was last
			// used for another location (a client that reuses its
			// context): the action must still work on ln.
			if !w.hasLoop(ln) && w.model[ln].locEnabled() == 1 {
				other := locs[0]
				if other == ln {
					other = locs[1]
				}
				pctx := newCtx()
				pctx.SetLoc(w.locs[other])
				probe := M{"when": M{"pattern": M{"evalprobe": "?p"}}, "action": M{"code": "Env.AddFact('made_eval', {probe_in: Env.Location}); Env.Location"}}
				work, cond := w.locs[ln].ProcessEvent(pctx, core.Map{"evalprobe": "1", "evaluate!": probe})
				if cond == nil && work != nil {
					for _, v := range work.Values {
						if s, ok := v.(string); ok && s != ln {
							o.Fail("ACTION_SAW_WRONG_LOCATION", "%s: an embedded rule evaluated at %s (with a context last used for %s) ran its action in location %q", lwhen, ln, other, s)
						}
					}
				}
				for _, l2 := range locs {
					_, err := w.locs[l2].GetFact(newCtx(), "made_eval")
					if err == nil && l2 != ln {
						o.Fail("ACTION_WROTE_TO_OTHER_LOCATION", "%s: the action of an embedded rule evaluated at %s wrote its fact into location %s", lwhen, ln, l2)
					}
					if err == nil {
						w.locs[l2].RemFact(newCtx(), "made_eval")
					}
				}
				if o.Failed() {
					return o
				}
			}
			// own (non-inherited) observations always follow the model
			for _, p := range patterns {
				w.checkSearch(ln, p, false, lwhen)
			}
			w.checkListRules(ln, false, lwhen)
			if ok {
				for _, p := range patterns {
					w.checkSearch(ln, p, true, lwhen)
				}
				w.checkListRules(ln, true, lwhen)
				for _, e := range events {
					// how many facts the condition of an env rule finds
					nAt := 0
					for _, an := range order {
						nAt += len(w.model[an].search(M{"at": "?w"}))
					}
					ectx := newCtx()
					ectx.SetLoc(w.locs[ln])
					w.eventCtx = ectx
					ec := w.checkEvent(ln, e, lwhen)
					w.eventCtx = nil
					if !strict && (ec.Unspec || ec.ErrorDisp) {
						// a diamond whose shared location contributes: what
						// ran (and wrote) is not specified
						for id, env := range envRule {
							if env {
								w.model[ln].Unspec["made_"+id] = true
							}
						}
					}
					for id := range ec.NBind {
						if envRule[id] && nAt > 0 {
							// the action wrote into the location the
							// event was sent to -- and nowhere else
							w.model[ln].put("made_"+id, modelFactItem(M{"made_in": ln}))
							o.Label("env-action-ran")
						}
					}
					for _, v := range ec.Values {
						if s, ok := v.(string); ok && len(s) == 1 && s != ln {
							o.Fail("ACTION_SAW_WRONG_LOCATION", "%s: an action of an event sent to %s saw Env.Location = %q", lwhen, ln, s)
						}
					}
					if len(ec.NBind) > 0 {
						// the writes of the actions are checked at once
						for _, l2 := range locs {
							w.checkSearch(l2, M{"made_in": "?l"}, false, lwhen+" (facts made by actions, in "+l2+")")
						}
					}
				}
			}
			if o.Failed() {
				return o
			}
		}
	}
	if deep || changedParentsThenInherited || loop {
		o.NonTrivial = true
	}
	if deep {
		o.Label("depth>=2")
	}
	if loop {
		o.Label("loop")
	}
	return o
}

// hasLoop reports whether following parents from name reaches a cycle.
func (w *world) hasLoop(name string) bool {
	var visit func(n string, stack map[string]bool, depth int) bool
	visit = func(n string, stack map[string]bool, depth int) bool {
		if stack[n] {
			return true
		}
		if depth > 20 {
			return false
		}
		ml, have := w.model[n]
		if !have {
			return false
		}
		ps, spec := ml.parents()
		if !spec {
			return false
		}
		stack[n] = true
		defer delete(stack, n)
		for _, p := range ps {
			if visit(p, stack, depth+1) {
				return true
			}
		}
		return false
	}
	return visit(name, map[string]bool{}, 0)
}

func TestC09(t *testing.T) {
	vlib.Check(t, "C09", genC09, runC09)
}
