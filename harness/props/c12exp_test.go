package props

// C12 (expiry part) — expiry-driven removals under concurrency.
//
// Facts and rules that expire at the next full second are written first; the
// clients then read them (get, search, rule list, event, rule look-up)
// concurrently across that instant, so that several requests find the same
// item expired at the same time and purge it (and its deleteWith dependents)
// while others still read.  Real time.  Oracle: no crash (concurrent map
// access is fatal), no deadlock, every read returns the written value or
// not-found, a client never sees an item again after it saw it gone, after
// the instant everything that expired is gone from memory and from storage,
// and what does not expire is untouched; in the race build every data race
// report is a violation.

import (
	"fmt"
	"strings"
	"sync"
	"sync/atomic"
	"testing"
	"time"

	"github.com/Comcast/rulio/core"
	"pgregory.net/rapid"

	"verif/harness/vlib"
)

type c12ExpCase struct {
	Kind    string     `json:"kind"`
	Hooks   bool       `json:"hooks,omitempty"`
	Deps    bool       `json:"deps"` // the expiring items have deleteWith dependents
	Clients [][]string `json:"clients"`
	LeadMs  int        `json:"leadMs"` // the clients start this long before the instant
	// StoreDelayUs makes every storage write (also the removals of a purge)
	// take this long inside the state's locked section, so that readers
	// and writers queue up behind a purge in progress.
	StoreDelayUs int `json:"storeDelayUs,omitempty"`
	// Noise > 0: schedule noise (see noise_test.go).
	Noise int `json:"noise,omitempty"`
}

var c12ExpOps = []string{"getF1", "getF2", "getR1", "getDep", "search", "list", "event", "event", "getKeep", "addOther", "getF3", "getF3", "getF3", "rewriteF3", "rewriteF3"}

func genC12Exp(t *rapid.T) c12ExpCase {
	var c c12ExpCase
	c.Kind = rapid.SampledFrom([]string{"indexed", "linear"}).Draw(t, "kind")
	c.Hooks = rapid.IntRange(0, 2).Draw(t, "hooks") == 0
	c.Deps = rapid.Bool().Draw(t, "deps")
	nc := rapid.IntRange(2, 6).Draw(t, "nclients")
	for i := 0; i < nc; i++ {
		n := rapid.IntRange(1, 4).Draw(t, fmt.Sprintf("c%d.n", i))
		var ops []string
		for j := 0; j < n; j++ {
			ops = append(ops, rapid.SampledFrom(c12ExpOps).Draw(t, fmt.Sprintf("c%d.o%d", i, j)))
		}
		c.Clients = append(c.Clients, ops)
	}
	c.LeadMs = rapid.SampledFrom([]int{5, 20, 40}).Draw(t, "lead")
	c.StoreDelayUs = rapid.SampledFrom([]int{0, 200, 500}).Draw(t, "storeDelayUs")
	if rapid.Bool().Draw(t, "noise?") {
		c.Noise = rapid.IntRange(1, 1000).Draw(t, "noise")
	}
	return c
}

func runC12Exp(c c12ExpCase) *vlib.Outcome {
	o := &vlib.Outcome{}
	if (c.Kind != "indexed" && c.Kind != "linear") || len(c.Clients) < 1 || len(c.Clients) > 16 || c.LeadMs < 1 || c.LeadMs > 500 {
		o.Discard = true
		return o
	}
	var store core.Storage
	if c.StoreDelayUs > 0 && c.StoreDelayUs <= 10000 {
		mem, _ := core.NewMemStorage(newCtx())
		store = &c12SlowStore{mem, time.Duration(c.StoreDelayUs) * time.Microsecond}
	}
	w := newWorld(c.Kind, store, o)
	if c.Hooks {
		w.withCronHooks()
	}
	loc, err := w.open("L")
	if err != nil {
		o.Fail("OPEN", "%v", err)
		return o
	}
	// write early in a second, so that E = that second + 1 is accepted
	now := time.Now()
	if now.Nanosecond() > 600e6 {
		time.Sleep(time.Duration(1e9-now.Nanosecond()) + 5*time.Millisecond)
		now = time.Now()
	}
	E := now.Unix() + 1
	instant := time.Unix(E, 0)
	ctx0 := locCtx(loc)
	must := func(what string, err error) bool {
		if err != nil {
			if strings.Contains(err.Error(), "expired") {
				// the set-up was too slow (busy machine): the instant
				// has arrived already; nothing to learn
				o.Discard = true
				return false
			}
			o.Fail("SETUP", "%s: %v", what, err)
			return false
		}
		return true
	}
	_, err = loc.AddFact(ctx0, "f1", core.Map{"v": "one", "expires": float64(E)})
	if !must("AddFact f1", err) {
		return o
	}
	_, err = loc.AddFact(ctx0, "f2", core.Map{"v": "two", "expires": float64(E)})
	if !must("AddFact f2", err) {
		return o
	}
	r1 := mkRule(M{"go": "1"}, "r1")
	r1["expires"] = float64(E)
	_, err = loc.AddRule(ctx0, "r1", core.Map(r1))
	if !must("AddRule r1", err) {
		return o
	}
	_, err = loc.AddRule(ctx0, "keep", core.Map(mkRule(M{"go": "1"}, "keep")))
	if !must("AddRule keep", err) {
		return o
	}
	const nx = 24
	for k := 0; k < nx; k++ {
		_, err = loc.AddFact(ctx0, fmt.Sprintf("x%d", k), core.Map{"v": "three", "expires": float64(E)})
		if !must("AddFact x", err) {
			return o
		}
	}
	_, err = loc.AddFact(ctx0, "stay", core.Map{"v": "stay"})
	if !must("AddFact stay", err) {
		return o
	}
	if c.Deps {
		_, err = loc.AddFact(ctx0, "dep", core.Map{"v": "dep", "deleteWith": []interface{}{"f1"}})
		if !must("AddFact dep", err) {
			return o
		}
		r2 := mkRule(M{"go": "1"}, "r2")
		r2["deleteWith"] = []interface{}{"r1"}
		_, err = loc.AddRule(ctx0, "r2", core.Map(r2))
		if !must("AddRule r2", err) {
			return o
		}
	}
	if time.Now().After(instant.Add(-time.Duration(c.LeadMs) * time.Millisecond)) {
		// the set-up was too slow (busy machine): nothing to learn
		o.Discard = true
		return o
	}
	time.Sleep(time.Until(instant.Add(-time.Duration(c.LeadMs) * time.Millisecond)))

	if c.Noise > 0 {
		_, end := startNoise(c.Noise)
		defer end()
		o.Label("schedule-noise")
	}
	stop := instant.Add(80 * time.Millisecond)
	var mu sync.Mutex
	fail := func(kind, format string, args ...interface{}) {
		mu.Lock()
		o.Fail(kind, format, args...)
		mu.Unlock()
	}
	// x0..x23 expire like the others but may be rewritten (without an
	// expiry) by a client: from the moment such a write has returned, the
	// item is there
	var rewritten [nx]int64 // UnixNano of the first completed rewrite, 0 = none
	var claimed [nx]int32
	var wg sync.WaitGroup
	for ci, ops := range c.Clients {
		wg.Add(1)
		go func(ci int, ops []string) {
			defer wg.Done()
			gone := map[string]bool{}
			seenGet := func(id, want string) {
				ctx := locCtx(loc)
				f, err := loc.GetFact(ctx, id)
				if err != nil {
					if _, nf := err.(*core.NotFoundError); !nf {
						fail("READ_ERROR", "client %d: GetFact(%q) across its expiry failed with %v", ci, id, err)
					}
					gone[id] = true
					return
				}
				if gone[id] {
					fail("RESURRECTED", "client %d: GetFact(%q) returned the item again after it had been reported gone", ci, id)
				}
				if want != "" && fmt.Sprint(f["v"]) != want {
					fail("WRONG_VALUE", "client %d: GetFact(%q) returned v=%v", ci, id, f["v"])
				}
			}
			for n := 0; time.Now().Before(stop); n++ {
				for _, k := range ops {
					switch k {
					case "getF1":
						seenGet("f1", "one")
					case "getF2":
						seenGet("f2", "two")
					case "getDep":
						seenGet("dep", "dep")
					case "rewriteF3":
						// every item is rewritten at most once (a second
						// rewrite would heal a lost one)
						k := -1
						for j := 0; j < nx; j++ {
							if atomic.CompareAndSwapInt32(&claimed[(n+ci+j)%nx], 0, 1) {
								k = (n + ci + j) % nx
								break
							}
						}
						if k < 0 {
							break
						}
						if _, err := loc.AddFact(locCtx(loc), fmt.Sprintf("x%d", k), core.Map{"v": "three2"}); err != nil {
							fail("WRITE_ERROR", "client %d: rewriting x%d (without expiry) across its expiry failed with %v", ci, k, err)
						} else {
							atomic.CompareAndSwapInt64(&rewritten[k], 0, time.Now().UnixNano())
						}
					case "getF3":
						for k := 0; k < nx; k++ {
							since := atomic.LoadInt64(&rewritten[k])
							f, err := loc.GetFact(locCtx(loc), fmt.Sprintf("x%d", k))
							if err != nil {
								if _, nf := err.(*core.NotFoundError); !nf {
									fail("READ_ERROR", "client %d: GetFact(x%d) failed with %v", ci, k, err)
								} else if since != 0 {
									fail("ACKNOWLEDGED_WRITE_LOST", "client %d: x%d was rewritten without an expiry (the write had returned before this read began) but GetFact says not found", ci, k)
								}
							} else if since != 0 && fmt.Sprint(f["v"]) != "three2" {
								fail("ACKNOWLEDGED_WRITE_LOST", "client %d: x%d was rewritten but GetFact returned v=%v", ci, k, f["v"])
							}
						}
					case "getKeep":
						if _, err := loc.GetFact(locCtx(loc), "stay"); err != nil {
							fail("BYSTANDER_LOST", "client %d: the fact that never expires could not be read: %v", ci, err)
						}
					case "getR1":
						if _, err := loc.GetRule(locCtx(loc), "r1"); err != nil {
							if _, nf := err.(*core.NotFoundError); !nf {
								fail("READ_ERROR", "client %d: GetRule(r1) across its expiry failed with %v", ci, err)
							}
						}
					case "search":
						srs, err := loc.SearchFacts(locCtx(loc), core.Map{"v": "?v"}, false)
						if err != nil {
							fail("READ_ERROR", "client %d: SearchFacts across the expiry failed with %v", ci, err)
							break
						}
						stay := false
						for _, sr := range srs.Found {
							if sr.Id == "stay" {
								stay = true
							}
						}
						if !stay {
							fail("BYSTANDER_LOST", "client %d: a search across the expiry did not return the fact that never expires", ci)
						}
					case "list":
						ids, err := loc.ListRules(locCtx(loc), false)
						if err != nil {
							fail("READ_ERROR", "client %d: ListRules across the expiry failed with %v", ci, err)
							break
						}
						keep := false
						for _, id := range ids {
							if id == "keep" {
								keep = true
							}
						}
						if !keep {
							fail("BYSTANDER_LOST", "client %d: the rule list across the expiry lacks the rule that never expires (%v)", ci, ids)
						}
					case "event":
						work, cond := loc.ProcessEvent(locCtx(loc), core.Map{"go": "1"})
						if cond != nil {
							fail("EVENT_ERROR", "client %d: an event across the expiry failed with %q", ci, cond.Msg)
							break
						}
						keep := false
						for _, v := range work.Values {
							if v == "keep" {
								keep = true
							}
						}
						if !keep {
							fail("BYSTANDER_LOST", "client %d: an event across the expiry did not run the rule that never expires (values %v)", ci, work.Values)
						}
					case "addOther":
						if _, err := loc.AddFact(locCtx(loc), fmt.Sprintf("o%d", ci), core.Map{"v": fmt.Sprintf("o%d.%d", ci, n)}); err != nil {
							fail("WRITE_ERROR", "client %d: AddFact of an unrelated id across the expiry failed with %v", ci, err)
						}
					}
				}
			}
		}(ci, ops)
	}
	done := make(chan struct{})
	go func() { wg.Wait(); close(done) }()
	select {
	case <-done:
	case <-time.After(30 * time.Second):
		o.Fail("DEADLOCK", "the clients did not finish within 30s; case %s", vlib.JSON(c))
		return o
	}
	if o.Failed() {
		return o
	}
	o.NonTrivial = len(c.Clients) >= 3
	// afterwards: the expired items are gone for good, everywhere
	expiring := []string{"f1", "f2", "r1"}
	for _, id := range expiring {
		if _, err := loc.GetFact(locCtx(loc), id); err == nil {
			o.Fail("EXPIRED_VISIBLE", "[%s] %q is still returned %v after its expiry instant", c.Kind, id, time.Since(instant))
			return o
		}
	}
	keys, _ := w.storageKeys("L")
	for _, id := range expiring {
		if _, stored := keys[id]; stored {
			o.Fail("EXPIRED_IN_STORAGE", "[%s] %q was observed expired but is still in storage", c.Kind, id)
			return o
		}
	}
	if c.Deps {
		for _, id := range []string{"dep", "r2"} {
			_, err := loc.GetFact(locCtx(loc), id)
			_, stored := keys[id]
			if (err == nil) != stored {
				o.Fail("MEMORY_STORAGE_DIVERGE", "[%s] dependent %q of an expired item: in memory %v, in storage %v", c.Kind, id, err == nil, stored)
				return o
			}
			if err == nil {
				o.Fail("DEPENDENT_SURVIVED", "[%s] %q names an expired and purged item in deleteWith but is still there", c.Kind, id)
				return o
			}
		}
	}
	for k := 0; k < nx; k++ {
		id := fmt.Sprintf("x%d", k)
		if atomic.LoadInt64(&rewritten[k]) != 0 {
			o.Label("expiring-item-rewritten")
			f, err := loc.GetFact(locCtx(loc), id)
			js, stored := keys[id]
			if err != nil || fmt.Sprint(f["v"]) != "three2" || !stored {
				o.Fail("ACKNOWLEDGED_WRITE_LOST", "[%s] %s was rewritten without an expiry, but afterwards GetFact gives (%v, %v) and storage has %q (%v)", c.Kind, id, f, err, js, stored)
				return o
			}
		} else if _, err := loc.GetFact(locCtx(loc), id); err == nil {
			o.Fail("EXPIRED_VISIBLE", "[%s] %s is still returned after its expiry instant", c.Kind, id)
			return o
		}
	}
	for _, id := range []string{"stay", "keep"} {
		if _, err := loc.GetFact(locCtx(loc), id); err != nil {
			o.Fail("BYSTANDER_LOST", "[%s] %q never expires but is gone after the expiry of others: %v", c.Kind, id, err)
			return o
		}
		if _, stored := keys[id]; !stored {
			o.Fail("BYSTANDER_LOST", "[%s] %q never expires but is gone from storage", c.Kind, id)
			return o
		}
	}
	return o
}

func TestC12Expiry(t *testing.T) {
	vlib.Check(t, "C12", genC12Exp, runC12Exp)
}
