package props

// C05 — pattern matching is sound and complete for partial (subset) matching.
//
// Oracle: strict ⊆ core.Match ⊆ lenient (refmatch, brute force), plus a
// reference-free soundness check by substitution, immutability of the
// inputs, and typed-variant (core.Map, []string, int) agreement.

import (
	"reflect"
	"testing"

	"github.com/Comcast/rulio/core"
	"pgregory.net/rapid"

	"verif/harness/gen"
	"verif/harness/refmatch"
	"verif/harness/vlib"
)

type c05Case struct {
	Pattern M    `json:"pattern"`
	Data    M    `json:"data"`
	Init    M    `json:"init"`
	Typing  int  `json:"typing"`
	Derived bool `json:"derived"`
}

func genC05(t *rapid.T) c05Case {
	o := gen.Opts{Hostile: rapid.IntRange(0, 3).Draw(t, "hostile") == 0}
	po := gen.PatOpts{Opts: o, PropVar: true, Optional: true}
	var c c05Case
	switch rapid.IntRange(0, 3).Draw(t, "how") {
	case 0: // independent
		c.Data = gen.Map(t, o, 2, "data")
		c.Pattern = gen.Pattern(t, po, 2, "pat")
	case 1: // data instantiated from a pattern
		c.Pattern = gen.Pattern(t, po, 2, "pat")
		c.Data = gen.Instantiate(t, o, c.Pattern, "data")
		c.Derived = true
	default: // pattern derived from data
		c.Data = gen.Map(t, o, 3, "data")
		c.Pattern = gen.Derive(t, po, c.Data, "pat")
		c.Derived = true
	}
	c.Init = M{}
	n := rapid.IntRange(0, 2).Draw(t, "ninit")
	for i := 0; i < n; i++ {
		v := rapid.SampledFrom(gen.Vars).Draw(t, "initvar")
		// Right (taken from the data) or arbitrary values.
		if rapid.Bool().Draw(t, "initFromData") {
			vals := collectValues(c.Data, nil)
			if len(vals) > 0 {
				c.Init[v] = gen.DeepCopy(rapid.SampledFrom(vals).Draw(t, "initval"))
				continue
			}
		}
		c.Init[v] = gen.Value(t, o, 1, "initval")
	}
	c.Typing = rapid.IntRange(0, 1<<12-1).Draw(t, "typing")
	return c
}

// collectValues lists every sub-value in deterministic order.
func collectValues(x interface{}, acc []interface{}) []interface{} {
	switch v := x.(type) {
	case M:
		for _, k := range gen.SortedKeys(v) {
			acc = append(acc, v[k])
			acc = collectValues(v[k], acc)
		}
	case A:
		for _, y := range v {
			acc = append(acc, y)
			acc = collectValues(y, acc)
		}
	}
	return acc
}

// retype produces a Go-typed variant of a JSON value: core.Map for maps,
// []string for all-string arrays (empty ones become empty typed slices), int / int64 for integral numbers
// (anywhere, also inside arrays), as selected by the bits of mask.
type retyper struct {
	mask int
	site int
	used int
}

func (r *retyper) bit() bool {
	b := r.mask&(1<<(r.site%12)) != 0
	r.site++
	if b {
		r.used++
	}
	return b
}

func (r *retyper) value(x interface{}, mapValue bool) interface{} {
	switch v := x.(type) {
	case M:
		n := make(map[string]interface{}, len(v))
		for _, k := range gen.SortedKeys(v) {
			n[k] = r.value(v[k], true)
		}
		if r.bit() {
			return core.Map(n)
		}
		return n
	case A:
		if len(v) == 0 && r.bit() {
			// an empty Go-typed slice is still an (empty) array
			switch r.site % 3 {
			case 0:
				return []string{}
			case 1:
				return []core.Map{}
			default:
				return []int{}
			}
		}
		allStr := len(v) > 0
		for _, y := range v {
			if _, ok := y.(string); !ok {
				allStr = false
			}
		}
		if allStr && r.bit() {
			ss := make([]string, len(v))
			for i, y := range v {
				ss[i] = y.(string)
			}
			return ss
		}
		n := make([]interface{}, len(v))
		for i, y := range v {
			n[i] = r.value(y, false)
		}
		return n
	case float64:
		_ = mapValue
		if v == float64(int(v)) && r.bit() {
			// (also inside arrays; int64 is what a script that
			// returns an integral number hands over)
			if r.site%2 == 0 {
				return int64(v)
			}
			return int(v)
		}
	}
	return x
}

func runC05(c c05Case) *vlib.Outcome {
	o := &vlib.Outcome{}
	if c.Pattern == nil {
		c.Pattern = M{}
	}
	if c.Data == nil {
		c.Data = M{}
	}
	if c.Init == nil {
		c.Init = M{}
	}
	pat0, data0, init0 := gen.CopyMap(c.Pattern), gen.CopyMap(c.Data), gen.CopyMap(c.Init)

	got, err := core.Match(nil, c.Pattern, c.Data, core.Bindings(c.Init))

	strict := refmatch.Match(pat0, data0, init0, refmatch.Strict)
	lenient := refmatch.Match(pat0, data0, init0, refmatch.Lenient)
	sset, lset := refmatch.KeySet(strict.Bss), refmatch.KeySet(lenient.Bss)

	// labels / non-triviality
	pv, pa := hasVar(c.Pattern), hasArray(c.Pattern)
	if pv {
		o.Label("pattern-has-var")
	}
	if pa {
		o.Label("pattern-has-array")
	}
	if len(lset) > 0 {
		o.Label("matches")
	}
	if len(lset) > 1 {
		o.Label("multi-binding")
	}
	if len(sset) != len(lset) {
		o.Label("strict!=lenient")
	}
	if strict.PropVar {
		o.Label("prop-var")
	}
	if strict.ContainerRebind || lenient.ContainerRebind {
		o.Label("container-rebind")
	}
	if len(c.Init) > 0 {
		o.Label("init-bindings")
	}
	o.NonTrivial = pv && (pa || gen.Depth(c.Pattern) >= 2) && (len(lset) > 0 || c.Derived)

	known := func(kind, f string, a ...interface{}) {
		if (strict.ContainerRebind || lenient.ContainerRebind) && vlib.KnownActive("matcher-bound-container-var-is-pattern") {
			o.Known = append(o.Known, "matcher-bound-container-var-is-pattern")
			return
		}
		o.Fail(kind, f, a...)
	}

	if err != nil {
		o.Fail("UNEXPECTED_ERROR", "core.Match(%s, %s, %s) returned error %v", vlib.JSON(pat0), vlib.JSON(data0), vlib.JSON(init0), err)
		return o
	}
	gset := refmatch.KeySet(toRefBindings(got))
	if d := diffSets(sset, gset); len(d) > 0 {
		known("INCOMPLETE", "pattern %s data %s init %s: genuine match(es) omitted: %v; got %v", vlib.JSON(pat0), vlib.JSON(data0), vlib.JSON(init0), d, sortedKeys(gset))
	}
	if d := diffSets(gset, lset); len(d) > 0 {
		known("UNSOUND", "pattern %s data %s init %s: returned binding(s) that are not matches: %v; reference %v", vlib.JSON(pat0), vlib.JSON(data0), vlib.JSON(init0), d, sortedKeys(lset))
	}
	// reference-free soundness
	pvars := map[string]bool{}
	refmatch.Vars(pat0, pvars)
	for _, b := range got {
		for k, v := range init0 {
			if x, have := b[k]; !have || !refmatch.Equal(x, v, true) {
				o.Fail("INIT_BINDING_LOST", "pattern %s data %s init %s: result %s does not extend the initial bindings", vlib.JSON(pat0), vlib.JSON(data0), vlib.JSON(init0), vlib.JSON(b))
			}
		}
		for k := range b {
			if _, inInit := init0[k]; !inInit && !pvars[k] {
				o.Fail("SPURIOUS_VARIABLE", "pattern %s data %s: result %s binds %s which is neither in the pattern nor in the initial bindings", vlib.JSON(pat0), vlib.JSON(data0), vlib.JSON(b), k)
			}
		}
		for k := range pvars {
			if refmatch.IsOptionalVar(k) {
				continue // (an optional field that is not there binds nothing)
			}
			if _, have := b[k]; !have {
				o.Fail("UNBOUND_VARIABLE", "pattern %s data %s: result %s leaves %s unbound", vlib.JSON(pat0), vlib.JSON(data0), vlib.JSON(b), k)
			}
		}
		hasOptional := false
		for k := range pvars {
			if refmatch.IsOptionalVar(k) {
				hasOptional = true
			}
		}
		// (with optional fields the substituted pattern need not be part
		// of the data: a field that is not there stays out)
		if !hasOptional && !refmatch.Included(refmatch.Subst(pat0, refmatch.Bindings(b)), data0) {
			known("UNSOUND_SUBST", "pattern %s data %s: substituting result %s does not give a literal subset of the data", vlib.JSON(pat0), vlib.JSON(data0), vlib.JSON(b))
		}
	}
	// immutability
	if !refmatch.Equal(c.Pattern, pat0, true) {
		o.Fail("MUTATED_PATTERN", "pattern changed from %s to %s", vlib.JSON(pat0), vlib.JSON(c.Pattern))
	}
	if !refmatch.Equal(c.Data, data0, true) {
		o.Fail("MUTATED_DATA", "data changed from %s to %s", vlib.JSON(data0), vlib.JSON(c.Data))
	}
	if !refmatch.Equal(c.Init, init0, true) || len(c.Init) != len(init0) {
		o.Fail("MUTATED_BINDINGS", "initial bindings changed from %s to %s", vlib.JSON(init0), vlib.JSON(c.Init))
	}
	// typed variants
	if c.Typing != 0 {
		r := &retyper{mask: c.Typing}
		tp := r.value(gen.CopyMap(pat0), false)
		td := r.value(gen.CopyMap(data0), false)
		// (the initial bindings' values are Go-typed in the same way)
		ti := core.Bindings{}
		for k, v := range gen.CopyMap(init0) {
			ti[k] = r.value(v, false)
		}
		if r.used > 0 {
			o.Label("typed-variant")
			tp0, td0, ti0 := typedCopy(tp), typedCopy(td), typedCopy(ti)
			tgot, terr := core.Match(nil, tp, td, ti)
			// the Go-typed pattern, data and initial bindings are the
			// caller's as well: same values of the same types afterwards
			if !reflect.DeepEqual(tp, tp0) {
				o.Fail("MUTATED_PATTERN", "the Go-typed pattern changed from %#v to %#v", tp0, tp)
			}
			if !reflect.DeepEqual(td, td0) {
				o.Fail("MUTATED_DATA", "the Go-typed data changed from %#v to %#v", td0, td)
			}
			if !reflect.DeepEqual(ti, ti0) {
				o.Fail("MUTATED_BINDINGS", "the Go-typed initial bindings changed from %#v to %#v (pattern %s data %s)", ti0, ti, vlib.JSON(pat0), vlib.JSON(data0))
			}
			if terr != nil {
				o.Fail("TYPED_ERROR", "typed variant of pattern %s data %s (mask %d) failed: %v", vlib.JSON(pat0), vlib.JSON(data0), c.Typing, terr)
			} else {
				tset := refmatch.KeySet(toRefBindings(tgot))
				if len(diffSets(tset, gset)) > 0 || len(diffSets(gset, tset)) > 0 {
					known("TYPED_DIFFERS", "pattern %s data %s init %s: Go-typed variant (mask %d: %#v / %#v) gives %v, JSON typing gives %v", vlib.JSON(pat0), vlib.JSON(data0), vlib.JSON(init0), c.Typing, tp, td, sortedKeys(tset), sortedKeys(gset))
				}
			}
		}
	}
	return o
}

// typedCopy: a deep copy that keeps every Go type (core.Map stays core.Map,
// []string stays []string).
func typedCopy(x interface{}) interface{} {
	if x == nil {
		return nil
	}
	return typedCopyValue(reflect.ValueOf(x)).Interface()
}

func typedCopyValue(v reflect.Value) reflect.Value {
	switch v.Kind() {
	case reflect.Map:
		if v.IsNil() {
			return v
		}
		m := reflect.MakeMapWithSize(v.Type(), v.Len())
		for _, k := range v.MapKeys() {
			m.SetMapIndex(k, typedCopyValue(v.MapIndex(k)))
		}
		return m
	case reflect.Slice:
		if v.IsNil() {
			return v
		}
		s := reflect.MakeSlice(v.Type(), v.Len(), v.Len())
		for i := 0; i < v.Len(); i++ {
			s.Index(i).Set(typedCopyValue(v.Index(i)))
		}
		return s
	case reflect.Interface:
		if v.IsNil() {
			return v
		}
		c := reflect.New(v.Type()).Elem()
		c.Set(typedCopyValue(v.Elem()))
		return c
	}
	return v
}

func TestC05(t *testing.T) {
	vlib.Check(t, "C05", genC05, runC05)
}

func FuzzC05(f *testing.F) { vlib.Fuzz(f, "C05", genC05, runC05) }
