package props

// C01 — event dispatch evaluates exactly the rules whose `when` matches.
//
// State machine over AddRule/RemRule/AddFact-with-same-id/EnableRule/Clear/
// reload in a location and its ancestors, interleaved with events that are
// mostly instantiations of stored or *formerly* stored `when` patterns.  The
// dispatched rules and their bindings are compared with a brute-force model.

import (
	"fmt"
	"sort"
	"strings"
	"testing"

	"github.com/Comcast/rulio/core"
	"pgregory.net/rapid"

	"verif/harness/gen"
	"verif/harness/vlib"
)

type c01Case struct {
	Parents int  `json:"parents"` // 0, 1 (L<-P) or 2 (L<-P<-G)
	Ops     []op `json:"ops"`
	// Hooks installs the cron state hooks (as sys.System does).
	Hooks bool `json:"hooks,omitempty"`
}

var c01Locs = []string{"L", "P", "G"}

func genWhen(t *rapid.T, label string) M {
	o := gen.Opts{NoMixed: rapid.IntRange(0, 5).Draw(t, label+".mixed?") != 0}
	if rapid.IntRange(0, 4).Draw(t, label+".hostile?") == 0 {
		o.Hostile = true
	}
	po := gen.PatOpts{Opts: o, PropVar: rapid.IntRange(0, 3).Draw(t, label+".propvar?") == 0, Optional: true}
	if rapid.IntRange(0, 5).Draw(t, label+".specialvars?") == 0 {
		// variables named like the bindings the engine adds itself
		po.VarPool = []string{"?x", "?location", "?event", "?ruleId"}
	}
	return gen.Pattern(t, po, 2, label)
}

func genC01(t *rapid.T) c01Case {
	var c c01Case
	c.Parents = rapid.SampledFrom([]int{0, 0, 1, 2}).Draw(t, "parents")
	var whens []M
	n := rapid.IntRange(1, 25).Draw(t, "nops")
	ruleIds := []string{"r1", "r2", "r3", "r4"}
	for i := 0; i < n; i++ {
		l := fmt.Sprintf("op%d", i)
		loc := "L"
		if c.Parents > 0 && rapid.IntRange(0, 3).Draw(t, l+".inParent?") == 0 {
			loc = c01Locs[rapid.IntRange(1, c.Parents).Draw(t, l+".ploc")]
		}
		// ids are qualified per location so that a location and its
		// ancestor never share a rule id (documented to be an error)
		id := rapid.SampledFrom(ruleIds).Draw(t, l+".id")
		if loc != "L" {
			id = strings.ToLower(loc) + id
		}
		kinds := []string{"addRule", "addRule", "addRule", "remRule", "addFact", "enable", "reload", "event", "event", "event", "event", "clear", "addSched"}
		switch k := rapid.SampledFrom(kinds).Draw(t, l+".kind"); k {
		case "addRule":
			var w M
			if len(whens) > 0 && rapid.IntRange(0, 5).Draw(t, l+".reuse?") == 0 {
				w = gen.CopyMap(rapid.SampledFrom(whens).Draw(t, l+".reuse"))
			} else {
				w = genWhen(t, l+".when")
			}
			whens = append(whens, w)
			c.Ops = append(c.Ops, op{K: "addRule", Loc: loc, Id: id, Doc: w})
		case "remRule":
			c.Ops = append(c.Ops, op{K: "remRule", Loc: loc, Id: id})
		case "addSched":
			// a scheduled rule (never dispatched for events) under an id
			// that often holds an event rule
			c.Ops = append(c.Ops, op{K: "addSched", Loc: loc, Id: id})
		case "addFact":
			doc := gen.Map(t, gen.Opts{}, 1, l+".fact")
			if rapid.IntRange(0, 3).Draw(t, l+".rulish?") == 0 {
				// a fact whose "rule" is not a rule body: plain data
				// without the cron hooks, refused by them (and then the
				// rule it would have overwritten must stay in force)
				doc = M{"rule": rapid.SampledFrom([]interface{}{"x", 5.0, true, A{"a"}}).Draw(t, l+".rulish")}
			}
			c.Ops = append(c.Ops, op{K: "addFact", Loc: loc, Id: id, Doc: doc})
		case "enable":
			// a child may disable an inherited rule
			tid := id
			if c.Parents > 0 && rapid.Bool().Draw(t, l+".inherited?") {
				tid = "p" + rapid.SampledFrom(ruleIds).Draw(t, l+".pid")
			}
			c.Ops = append(c.Ops, op{K: "enable", Loc: "L", Id: tid, B: rapid.Bool().Draw(t, l+".on")})
		case "reload":
			c.Ops = append(c.Ops, op{K: "reload", Loc: loc})
		case "clear":
			if rapid.IntRange(0, 3).Draw(t, l+".really?") == 0 {
				c.Ops = append(c.Ops, op{K: "clear", Loc: loc})
			}
		case "event":
			var e M
			o := gen.Opts{NoMixed: true}
			if len(whens) > 0 && rapid.IntRange(0, 7).Draw(t, l+".inst?") != 0 {
				e = gen.Instantiate(t, o, rapid.SampledFrom(whens).Draw(t, l+".from"), l+".ev")
			} else {
				if rapid.IntRange(0, 3).Draw(t, l+".mixed?") == 0 {
					o.NoMixed = false
				}
				e = gen.Map(t, o, 2, l+".ev")
			}
			for k := range e {
				if strings.HasPrefix(k, "?") {
					delete(e, k)
				}
			}
			c.Ops = append(c.Ops, op{K: "event", Loc: "L", Doc: e})
		}
	}
	c.Hooks = rapid.IntRange(0, 2).Draw(t, "hooks") == 0
	return c
}

func isUnsortableRefusal(msg string) bool {
	return strings.Contains(msg, "is not sortable")
}

func runC01(c c01Case) *vlib.Outcome {
	o := &vlib.Outcome{}
	if c.Parents < 0 || c.Parents > 2 {
		o.Discard = true
		return o
	}
	for _, kind := range []string{"indexed", "linear"} {
		w := newWorld(kind, nil, o)
		if c.Hooks {
			w.withCronHooks()
		}
		for i := 0; i <= c.Parents; i++ {
			if _, err := w.open(c01Locs[i]); err != nil {
				o.Fail("OPEN", "cannot create location: %v", err)
				return o
			}
		}
		for i := 0; i < c.Parents; i++ {
			if err := w.setParents(c01Locs[i], []string{c01Locs[i+1]}); err != nil {
				o.Fail("SETPARENTS", "SetParents failed: %v", err)
				return o
			}
		}
		changed := false // some rule was overwritten or removed
		for i, x := range c.Ops {
			when := fmt.Sprintf("[%s parents=%d] op %d %s", kind, c.Parents, i, vlib.JSON(x))
			loc := x.Loc
			if loc == "" {
				loc = "L"
			}
			if _, have := w.locs[loc]; !have {
				continue
			}
			ml := w.model[loc]
			switch x.K {
			case "addRule":
				_, had := ml.Items[x.Id]
				r := w.addRule(loc, x.Id, mkRule(x.Doc, loc+"/"+x.Id))
				if r.Err != nil {
					o.Label("addRule-refused")
				} else if had {
					changed = true
				}
			case "addSched":
				if it, had := ml.Items[x.Id]; had && it.IsRule && it.Schedule == "" {
					changed = true
					o.Label("rule-overwritten-by-scheduled-rule")
				}
				rule := M{"schedule": "+1h", "action": M{"code": "'" + loc + "/" + x.Id + "'"}}
				if r := w.addRule(loc, x.Id, rule); r.Err != nil {
					o.Fail("ADDRULE_ERROR", "%s: adding a scheduled rule failed: %v", when, r.Err)
				}
			case "remRule":
				if _, had := ml.Items[x.Id]; had {
					changed = true
				}
				if r := w.remRule(loc, x.Id); r.Err != nil {
					o.Fail("REMRULE_ERROR", "%s: RemRule failed: %v", when, r.Err)
				}
			case "addFact":
				if it, had := ml.Items[x.Id]; had && it.IsRule {
					changed = true
					o.Label("rule-overwritten-by-fact")
				}
				if r := w.addFact(loc, x.Id, x.Doc); r.Err != nil {
					o.Label("addFact-refused")
				}
			case "enable":
				if r := w.enableRule(loc, x.Id, x.B); r.Err != nil {
					o.Fail("ENABLE_ERROR", "%s: EnableRule failed: %v", when, r.Err)
				}
			case "reload":
				if err := w.reload(loc); err != nil {
					o.Fail("RELOAD", "%s: reload failed: %v", when, err)
					return o
				}
			case "clear":
				if len(ml.Items) > 0 {
					changed = true
				}
				if err := w.clear(loc); err != nil {
					o.Fail("CLEAR_ERROR", "%s: Clear failed: %v", when, err)
				}
				if loc != c01Locs[c.Parents] {
					// clearing removed the parents property too
					o.Label("cleared-parents")
				}
			case "event":
				ec := w.checkEvent(loc, x.Doc, when)
				if !o.Failed() && changed && kind == "indexed" {
					// the event was processed; a location that holds
					// the same items without the history must not
					// refuse it (the other direction is checked where
					// refusals are handled, below)
					// (the location and what it inherits from now)
					chain := c01Chain(w, loc)
					if len(chain) > 0 && c01Historyless(w, kind, chain, x.Doc) == "refused" {
						o.Fail("REFUSAL_DEPENDS_ON_HISTORY", "%s: the event was processed, but a location that holds the same items and has no history refuses it as unsortable", when)
						return o
					}
				}
				if ec.Unspec {
					o.Label("event-unspecified")
				} else {
					if ec.Expected > 0 {
						o.Label("event-dispatches")
					}
					if changed || (ec.Expected > 0 && ec.Expected < ec.Stored) {
						o.NonTrivial = true
					}
				}
			}
			if o.Failed() {
				// a heterogeneous array in the event is a documented
				// refusal of the pattern index
				if o.Kind == "DISPATCH_ERROR" && isUnsortableRefusal(o.Violation) {
					refusal := o.Violation
					o.Violation, o.Kind = "", ""
					o.Label("event-refused-unsortable")
					// ... on the strength of the rules that are there,
					// not of those that were: a location that holds
					// the same items and never held anything else
					// must refuse the event, too
					if x.K == "event" {
						// the event's location and its ancestors
						chain := c01Chain(w, loc)
						if len(chain) > 0 && c01Historyless(w, kind, chain, x.Doc) == "processed" {
							o.Fail("REFUSAL_DEPENDS_ON_HISTORY", "%s: the event was refused (%s), but a location that holds the same items and has no history processes it", when, refusal)
							return o
						}
					}
					continue
				}
				return o
			}
		}
	}
	return o
}

// c01Historyless builds the locations of w anew from what they hold now
// (nothing that was removed or replaced has ever been there) and sends the
// event to the first location of the chain.  It returns "refused" if that
// location refuses the event as unsortable, "processed" if it does not, and ""
// if no verdict is possible.
// c01Chain: the location and what it inherits from at present, nearest
// first (nil if that is not known).
func c01Chain(w *world, loc string) []string {
	order, ok := w.ancestors(loc) // (ancestors first, the location last)
	if !ok {
		return nil
	}
	chain := make([]string, 0, len(order))
	for i := len(order) - 1; i >= 0; i-- {
		chain = append(chain, order[i])
	}
	return chain
}

func c01Historyless(w *world, kind string, chain []string, event M) string {
	for _, ln := range chain {
		if ml := w.model[ln]; ml == nil || len(ml.Unspec) > 0 {
			return ""
		}
	}
	o2 := &vlib.Outcome{}
	w2 := newWorld(kind, nil, o2)
	if w.hooks != nil {
		w2.withCronHooks()
	}
	for _, ln := range chain {
		if _, err := w2.open(ln); err != nil {
			return ""
		}
	}
	for i := 0; i+1 < len(chain); i++ {
		if err := w2.setParents(chain[i], []string{chain[i+1]}); err != nil {
			return ""
		}
	}
	for i := len(chain) - 1; i >= 0; i-- {
		ln := chain[i]
		ids := make([]string, 0, len(w.model[ln].Items))
		for id := range w.model[ln].Items {
			ids = append(ids, id)
		}
		sort.Strings(ids)
		for _, id := range ids {
			it := w.model[ln].Items[id]
			if _, err := w2.locs[ln].AddFact(newCtx(), id, core.Map(gen.CopyMap(it.Stored))); err != nil {
				return "" // (cannot rebuild: no verdict)
			}
		}
	}
	_, cond := w2.locs[chain[0]].ProcessEvent(newCtx(), core.Map(gen.CopyMap(event)))
	if cond != nil && isUnsortableRefusal(cond.Msg) {
		return "refused"
	}
	return "processed"
}

func TestC01(t *testing.T) {
	vlib.Check(t, "C01", genC01, runC01)
}

func FuzzC01(f *testing.F) { vlib.Fuzz(f, "C01", genC01, runC01) }
