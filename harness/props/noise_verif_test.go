//go:build verif

package props

import "github.com/Comcast/rulio/core"

func installYield(f func(string)) { core.SetVerifYield(f) }

const yieldHooksBuilt = true
