package props

// C08 — deleteWith removes exactly the dependents, durably, and terminates.
//
// Generated dependency graphs over ids a..f (facts and rules with deleteWith
// lists: chains, fans, cycles, self loops, dangling targets; property facts
// attached through EnableRule(false)/SetProp), then deletions in a drawn
// order.  After every step the presence of every id (get, rule list) and the
// storage key set are compared with the model's transitive closure.

import (
	"fmt"
	"testing"

	"pgregory.net/rapid"

	"verif/harness/vlib"
)

type c08Case struct {
	Ops []op `json:"ops"`
	// Hooks installs the cron state hooks (as sys.System does).
	Hooks bool `json:"hooks,omitempty"`
	// LoadDesc: storage hands back the records in descending key order.
	LoadDesc bool `json:"loadDesc,omitempty"`
}

var c08Ids = []string{"a", "b", "c", "d", "e", "f"}

func genC08(t *rapid.T) c08Case {
	var c c08Case
	added := []string{}
	pickRem := func(l string) string {
		// mostly ids that were added (so the deletion is a real one)
		if len(added) > 0 && rapid.IntRange(0, 4).Draw(t, l+".present?") != 0 {
			return rapid.SampledFrom(added).Draw(t, l+".pid")
		}
		return rapid.SampledFrom(c08Ids).Draw(t, l+".id")
	}
	// build phase
	nb := rapid.IntRange(2, 9).Draw(t, "nbuild")
	for i := 0; i < nb; i++ {
		l := fmt.Sprintf("b%d", i)
		id := rapid.SampledFrom(c08Ids).Draw(t, l+".id")
		var dw []string
		nd := rapid.SampledFrom([]int{0, 1, 1, 1, 2, 3}).Draw(t, l+".ndw")
		for j := 0; j < nd; j++ {
			// targets include the id itself (self loop) and ids
			// that are never stored (dangling: "z")
			dw = append(dw, rapid.SampledFrom(append(append([]string{}, c08Ids...), "z")).Draw(t, fmt.Sprintf("%s.dw%d", l, j)))
		}
		kind := rapid.SampledFrom([]string{"fact", "fact", "rule", "disable", "prop"}).Draw(t, l+".kind")
		if kind == "fact" || kind == "rule" {
			added = append(added, id)
		}
		switch kind {
		case "fact":
			c.Ops = append(c.Ops, op{K: "addFact", Id: id, L: dw, Doc: M{"v": rapid.SampledFrom([]string{"x", "y"}).Draw(t, l+".v")}})
		case "rule":
			c.Ops = append(c.Ops, op{K: "addRule", Id: id, L: dw})
		case "disable":
			c.Ops = append(c.Ops, op{K: "enable", Id: id, B: false})
		case "prop":
			x := op{K: "setProp", Id: id, Doc: M{"p": rapid.SampledFrom([]string{"p", "q"}).Draw(t, l+".p"), "v": "val"}}
			if rapid.Bool().Draw(t, l+".asFact") {
				// the other supported way to write a property: as a fact
				// (with an id of its own choosing, which is ignored)
				x.Doc["asFact"] = true
				// ... which may come with a deleteWith of its own (that
				// does not name the target)
				switch rapid.IntRange(0, 3).Draw(t, l+".owndw") {
				case 1:
					x.Doc["dw"] = A{}
				case 2:
					x.Doc["dw"] = A{"nobody"}
				case 3:
					x.Doc["dw"] = A{rapid.SampledFrom(c08Ids).Draw(t, l+".owndw.id")}
				}
			}
			c.Ops = append(c.Ops, x)
		}
	}
	// delete phase (with a few late additions and reloads mixed in)
	nd := rapid.IntRange(1, 8).Draw(t, "ndel")
	for i := 0; i < nd; i++ {
		l := fmt.Sprintf("d%d", i)
		switch rapid.SampledFrom([]string{"rem", "rem", "rem", "remRule", "reload", "add"}).Draw(t, l+".kind") {
		case "rem":
			c.Ops = append(c.Ops, op{K: "remFact", Id: pickRem(l)})
		case "remRule":
			c.Ops = append(c.Ops, op{K: "remRule", Id: pickRem(l)})
		case "reload":
			c.Ops = append(c.Ops, op{K: "reload"})
		case "add":
			id := rapid.SampledFrom(c08Ids).Draw(t, l+".id")
			c.Ops = append(c.Ops, op{K: "addFact", Id: id, L: []string{rapid.SampledFrom(c08Ids).Draw(t, l+".dw")}, Doc: M{"v": "late"}})
		}
	}
	c.Hooks = rapid.IntRange(0, 2).Draw(t, "hooks") == 0
	c.LoadDesc = rapid.Bool().Draw(t, "loadDesc")
	return c
}

func toA(ss []string) A {
	a := make(A, len(ss))
	for i, s := range ss {
		a[i] = s
	}
	return a
}

func runC08(c c08Case) *vlib.Outcome {
	o := &vlib.Outcome{}
	for _, kind := range []string{"indexed", "linear"} {
		w := newWorld(kind, nil, o)
		if c.Hooks {
			w.withCronHooks()
		}
		w.loadDesc = c.LoadDesc
		if _, err := w.open("L"); err != nil {
			o.Fail("OPEN", "cannot create location: %v", err)
			return o
		}
		ml := w.model["L"]
		for i, x := range c.Ops {
			when := fmt.Sprintf("[%s] after op %d %s", kind, i, vlib.JSON(x))
			switch x.K {
			case "addFact":
				f := M{}
				for k, v := range x.Doc {
					f[k] = v
				}
				if len(x.L) > 0 {
					f["deleteWith"] = toA(x.L)
				}
				if r := w.addFact("L", x.Id, f); r.Err != nil {
					o.Fail("ADD_ERROR", "%s: AddFact failed: %v", when, r.Err)
				}
			case "addRule":
				r := mkRule(M{"e": x.Id}, x.Id)
				if len(x.L) > 0 {
					r["deleteWith"] = toA(x.L)
				}
				if res := w.addRule("L", x.Id, r); res.Err != nil {
					o.Fail("ADDRULE_ERROR", "%s: AddRule failed: %v", when, res.Err)
				}
			case "enable":
				if r := w.enableRule("L", x.Id, x.B); r.Err != nil {
					o.Fail("ENABLE_ERROR", "%s: EnableRule failed: %v", when, r.Err)
				}
			case "setProp":
				p, _ := x.Doc["p"].(string)
				if p == "" {
					p = "p"
				}
				if asFact, _ := x.Doc["asFact"].(bool); asFact {
					pf := M{"id": x.Id, "!" + p: x.Doc["v"]}
					if dw, given := x.Doc["dw"]; given {
						pf["deleteWith"] = dw
						o.Label("property-fact-with-own-deleteWith")
					}
					if r := w.addFact("L", "", pf); r.Err != nil {
						o.Fail("ADD_ERROR", "%s: AddFact of a property failed: %v", when, r.Err)
					}
					o.Label("property-written-as-fact")
				} else if err := w.setProp("L", x.Id, p, x.Doc["v"]); err != nil {
					o.Fail("SETPROP_ERROR", "%s: SetProp failed: %v", when, err)
				}
			case "remFact", "remRule":
				before := len(ml.Items)
				_, present := ml.Items[x.Id]
				var r opResult
				if x.K == "remFact" {
					r = w.remFact("L", x.Id)
				} else {
					r = w.remRule("L", x.Id)
				}
				if r.Err != nil {
					o.Fail("REM_ERROR", "%s: remove failed: %v", when, r.Err)
				}
				removed := before - len(ml.Items)
				if present && removed >= 2 {
					o.Label("cascade")
					if len(ml.Items) >= 1 {
						o.NonTrivial = true
					}
				}
				if len(ml.Unspec) > 0 {
					o.Label("unspecified-dangling")
				}
			case "reload":
				if err := w.reload("L"); err != nil {
					o.Fail("RELOAD", "%s: reload failed: %v", when, err)
					return o
				}
			}
			if !o.Failed() {
				w.checkAll("L", c08Ids, when)
			}
			if o.Failed() {
				return o
			}
		}
	}
	return o
}

func TestC08(t *testing.T) {
	vlib.Check(t, "C08", genC08, runC08)
}

func FuzzC08(f *testing.F) { vlib.Fuzz(f, "C08", genC08, runC08) }
