package props

// Reference model of a location, written from doc/Manual.md and the property
// statements (not from the code): facts and rules by id, deleteWith cascade,
// properties as facts with canonical ids, disabled flags, parents, expiry as
// an absolute instant, brute-force search and dispatch with refmatch.
//
// The model is three-valued: where neither the manual nor the properties fix
// an outcome the id is marked "unspecified" and comparisons that depend on it
// are skipped until the next operation that defines it.

import (
	"sort"
	"strings"

	"verif/harness/gen"
	"verif/harness/refmatch"
)

type mItem struct {
	Stored     M      // expected value of get (the prepared fact)
	IsRule     bool   // stored["rule"] is a rule body
	When       M      // rule.when.pattern (nil for scheduled rules)
	Schedule   string // rule.schedule
	DeleteWith []string
	// AltStored: another acceptable value of get.  A property written as a
	// fact depends on its target; whether that shows in the stored form
	// (as a deleteWith entry) is the implementation's business.
	AltStored M
	// Expiry instant in UNIX seconds; 0 = never.  [ExpLo, ExpHi] is the
	// band allowed for ttl-derived instants.
	ExpLo, ExpHi int64
	Tag          string
}

type mLoc struct {
	Name   string
	Items  map[string]*mItem
	Unspec map[string]bool // ids whose presence is unspecified
}

func newMLoc(name string) *mLoc {
	return &mLoc{Name: name, Items: map[string]*mItem{}, Unspec: map[string]bool{}}
}

func (l *mLoc) clone() *mLoc {
	n := newMLoc(l.Name)
	for k, v := range l.Items {
		c := *v
		n.Items[k] = &c
	}
	for k := range l.Unspec {
		n.Unspec[k] = true
	}
	return n
}

func propId(target, prop string) string { return "!" + target + "." + prop }

// idProp reports the single '!'-property of a fact, if any.
func factProp(fact M) (isProp bool, target, prop string, multiple bool) {
	n := 0
	for k := range fact {
		if strings.HasPrefix(k, "!") {
			n++
			prop = k[1:]
		}
	}
	if n == 0 {
		return false, "", "", false
	}
	if n > 1 {
		return true, "", "", true
	}
	if t, ok := fact["id"].(string); ok {
		target = t
	}
	return true, target, prop, false
}

func deleteWithOf(fact M) []string {
	var acc []string
	switch v := fact["deleteWith"].(type) {
	case A:
		for _, x := range v {
			if s, ok := x.(string); ok {
				acc = append(acc, s)
			}
		}
	case []string:
		acc = append(acc, v...)
	}
	return acc
}

// put stores an item under id (overwrite replaces the old item entirely; an
// overwrite is not a deletion, so nothing cascades).
func (l *mLoc) put(id string, it *mItem) {
	l.Items[id] = it
	delete(l.Unspec, id)
}

// dependents returns the ids that name `id` in deleteWith.
func (l *mLoc) dependents(id string) []string {
	var acc []string
	for other, it := range l.Items {
		for _, d := range it.DeleteWith {
			if d == id {
				acc = append(acc, other)
				break
			}
		}
	}
	sort.Strings(acc)
	return acc
}

// rem deletes id and, transitively, everything that names a deleted id in
// deleteWith.  Removing an absent id leaves its would-be dependents
// unspecified (the documentation does not say whether a dangling target
// cascades).  Returns the set of ids deleted.
func (l *mLoc) rem(id string) map[string]bool {
	deleted := map[string]bool{}
	if _, have := l.Items[id]; !have {
		if l.Unspec[id] {
			// presence unknown: dependents become unknown too
			l.markUnspecClosure(id)
			return deleted
		}
		// absent: dependents naming it are unspecified
		for _, d := range l.dependents(id) {
			l.markUnspecClosure(d)
		}
		return deleted
	}
	work := []string{id}
	for len(work) > 0 {
		x := work[0]
		work = work[1:]
		if _, have := l.Items[x]; !have {
			continue
		}
		if x != id && l.Unspec[x] {
			// a dependent whose presence or content is unspecified: it
			// (and what depends on it) may or may not go with the rest
			l.markUnspecClosure(x)
			continue
		}
		deps := l.dependents(x)
		wasUnspec := l.Unspec[x]
		delete(l.Items, x)
		delete(l.Unspec, x)
		deleted[x] = true
		if wasUnspec {
			// x may or may not have been there: it is gone now, but
			// whether its dependents went with it is unknown.
			for _, d := range deps {
				l.markUnspecClosure(d)
			}
			continue
		}
		work = append(work, deps...)
	}
	// things that depended on an unspecified id stay as they are
	return deleted
}

func (l *mLoc) markUnspecClosure(id string) {
	// (visited set of this call, not the Unspec flags: an id that is already
	// unspecified may have gained dependents since it was marked)
	seen := map[string]bool{}
	work := []string{id}
	for len(work) > 0 {
		x := work[0]
		work = work[1:]
		if seen[x] {
			continue
		}
		seen[x] = true
		l.Unspec[x] = true
		work = append(work, l.dependents(x)...)
	}
}

func (l *mLoc) clear() {
	l.Items = map[string]*mItem{}
	l.Unspec = map[string]bool{}
}

// known reports whether the presence of id is specified.
func (l *mLoc) specified(id string) bool { return !l.Unspec[id] }

// disabledRule: tri-state (0 enabled, 1 disabled, 2 unspecified)
func (l *mLoc) ruleDisabled(id string) int {
	pid := propId(id, "disabled")
	if l.Unspec[pid] {
		return 2
	}
	it, have := l.Items[pid]
	if !have {
		return 0
	}
	if b, ok := it.Stored["!disabled"].(bool); ok && b {
		return 1
	}
	if _, ok := it.Stored["!disabled"].(bool); ok {
		return 0
	}
	return 2
}

// locEnabled: tri-state as above.
func (l *mLoc) locEnabled() int {
	pid := propId("", "enabled")
	if l.Unspec[pid] {
		return 2
	}
	it, have := l.Items[pid]
	if !have {
		return 1
	}
	s, ok := it.Stored["!enabled"].(string)
	if !ok {
		return 2 // non-string: GetPropString errors; unspecified
	}
	if s == "" || s == "yes" || s == "true" {
		return 1
	}
	return 0
}

func (l *mLoc) parents() ([]string, bool) {
	pid := propId("", "parents")
	if l.Unspec[pid] {
		return nil, false
	}
	it, have := l.Items[pid]
	if !have {
		return nil, true
	}
	var ps []string
	switch v := it.Stored["!parents"].(type) {
	case A:
		for _, x := range v {
			s, ok := x.(string)
			if !ok {
				return nil, false
			}
			ps = append(ps, s)
		}
	case []string:
		ps = v
	default:
		return nil, false
	}
	return ps, true
}

// live reports whether the item is unexpired at `now` (tri-state: within
// the expiry band the answer is unspecified).
func (it *mItem) live(now int64) int {
	if it.ExpLo == 0 && it.ExpHi == 0 {
		return 1
	}
	if now < it.ExpLo {
		return 1
	}
	if now >= it.ExpHi {
		return 0
	}
	return 2
}

// ---------------------------------------------------------------------
// search / dispatch expectations

type expMatch struct {
	Strict  map[string]bool
	Lenient map[string]bool
	Rebind  bool
}

func refBoth(pattern, data M) expMatch {
	s := refmatch.Match(pattern, data, nil, refmatch.Strict)
	l := refmatch.Match(pattern, data, nil, refmatch.Lenient)
	return expMatch{refmatch.KeySet(s.Bss), refmatch.KeySet(l.Bss), s.ContainerRebind || l.ContainerRebind}
}

// search: id -> expected match (only ids with a non-empty lenient result).
func (l *mLoc) search(pattern M) map[string]expMatch {
	acc := map[string]expMatch{}
	for id, it := range l.Items {
		e := refBoth(pattern, it.Stored)
		if len(e.Lenient) > 0 {
			acc[id] = e
		}
	}
	return acc
}

// dispatch: rule id -> expected match for the non-scheduled rules of this
// location whose when matches.
func (l *mLoc) dispatch(event M) map[string]expMatch {
	acc := map[string]expMatch{}
	for id, it := range l.Items {
		if !it.IsRule || it.Schedule != "" || it.When == nil {
			continue
		}
		e := refBoth(it.When, event)
		if len(e.Lenient) > 0 {
			acc[id] = e
		}
	}
	return acc
}

// ---------------------------------------------------------------------
// constructing items

// prepareFact computes the expected stored form of a fact (ttl folded into
// expires is handled by the caller that knows the clock); returns ok=false
// for inputs whose acceptance is not specified by the documentation.
func modelFactItem(fact M) *mItem {
	it := &mItem{Stored: gen.CopyMap(fact), DeleteWith: deleteWithOf(fact)}
	if r, ok := fact["rule"].(M); ok {
		it.IsRule = true
		if w, ok := r["when"].(M); ok {
			if p, ok := w["pattern"].(M); ok {
				it.When = gen.CopyMap(p)
			}
		}
		if s, ok := r["schedule"].(string); ok {
			it.Schedule = s
		}
	}
	return it
}

// ruleWrapper is the documented stored form of a rule: a fact with the rule
// under "rule" and deleteWith/expires lifted to the top level.
func ruleWrapper(rule M) M {
	w := M{"rule": gen.CopyMap(rule)}
	if dw, have := rule["deleteWith"]; have {
		w["deleteWith"] = gen.DeepCopy(dw)
	}
	return w
}

func mkRule(when M, tag string) M {
	return M{"when": M{"pattern": gen.CopyMap(when)}, "action": M{"code": "'" + tag + "'"}}
}
