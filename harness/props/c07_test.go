package props

// C07 — expiry is absolute and expired items are never observable.
//
// Runs under the Go runtime's faketime mode (virtual clock owned by the
// harness): timed histories write facts/rules with every expiry encoding at
// exact virtual instants, then observe (get, search, event, reload) at
// instants chosen relative to the expiry instant E: E-1s, E-1ns, E, E+1ns,
// E+1s and years later.  Visible iff floor(now) < E; E never moves; after an
// observation at or after E the record is purged from storage (and its
// deleteWith dependents with it); already-expired writes are rejected.

import (
	"fmt"
	"os"
	"testing"
	"time"

	"github.com/Comcast/rulio/core"
	"pgregory.net/rapid"

	"verif/harness/refmatch"
	"verif/harness/vlib"
)

type c07Case struct {
	Kind   string `json:"kind"`
	Offset int64  `json:"offset"` // ns into the second at which the history starts
	Slow   int64  `json:"slow"`   // virtual duration of every storage write (ns)
	Ops    []op   `json:"ops"`
	// LoadDesc: storage hands back the records in descending key order on
	// reload (dependents d1 < i1, i2 < r1 < r2 then come after their targets).
	LoadDesc bool `json:"loadDesc,omitempty"`
	// Hooks: the cron state hooks are installed, as sys.System does (they
	// look at the stored item whenever one is written or removed).
	Hooks bool `json:"hooks,omitempty"`
	// Strict (the C08 reading): an item that has expired is deleted, and
	// what depended on it with it - also when nobody has looked since and
	// the id is then written again.  (Without it the dependents of an
	// expired, unobserved, overwritten item are unspecified.)
	Strict bool `json:"strict,omitempty"`
}

// slowStore makes every storage write take (virtual) time, so that the clock
// moves between the steps of one operation.
type slowStore struct {
	core.Storage
	delay time.Duration
}

func (s *slowStore) Add(ctx *core.Context, loc string, data *core.Pair) error {
	if s.delay > 0 {
		time.Sleep(s.delay)
	}
	return s.Storage.Add(ctx, loc, data)
}

var c07Items = []string{"i1", "i2", "r1"}
var c07Offsets = []int64{-int64(time.Second), -1, 0, 1, int64(time.Second)}

const c07Far = int64(40 * 24 * time.Hour)

func genC07(t *rapid.T) c07Case {
	var c c07Case
	c.Kind = rapid.SampledFrom([]string{"indexed", "linear"}).Draw(t, "kind")
	c.Offset = rapid.SampledFrom([]int64{0, 0, 1, 300e6, 999999999}).Draw(t, "offset")
	c.Slow = rapid.SampledFrom([]int64{0, 0, 0, 600e6, 1e9}).Draw(t, "slow")
	c.LoadDesc = rapid.Bool().Draw(t, "loadDesc")
	c.Hooks = rapid.Bool().Draw(t, "hooks")
	n := rapid.IntRange(2, 14).Draw(t, "nops")
	usedFar := false
	for i := 0; i < n; i++ {
		l := fmt.Sprintf("op%d", i)
		kinds := []string{"write", "write", "write", "dep", "get", "get", "search", "event", "reload", "sleepTo", "sleepTo", "sleepTo", "sleep", "list", "deprule", "keep", "event", "clear"}
		switch k := rapid.SampledFrom(kinds).Draw(t, l+".kind"); k {
		case "write":
			id := rapid.SampledFrom(c07Items).Draw(t, l+".id")
			// ("ttlint": the number as a Go int64, which is what a script
			// hands over when it writes {ttl: 3})
			encs := []string{"expnum", "exprfc", "ttlstr", "ttlnum", "ttlint", "none"}
			if id == "r1" {
				// a rule's `expires` is documented as UNIX seconds only
				encs = []string{"expnum", "ttlstr", "ttlnum", "ttlint", "none"}
			}
			enc := rapid.SampledFrom(encs).Draw(t, l+".enc")
			var d float64
			switch enc {
			case "ttlstr":
				d = float64(rapid.SampledFrom([]int{1, 500, 999, 1000, 1500, 2000, 3200, 60000, -1000}).Draw(t, l+".ms"))
			default:
				d = float64(rapid.SampledFrom([]int{1, 1, 2, 3, 10, 0, -1, 1000}).Draw(t, l+".secs"))
			}
			c.Ops = append(c.Ops, op{K: "write", Id: id, Doc: M{"enc": enc, "d": d}})
		case "dep":
			c.Ops = append(c.Ops, op{K: "dep", Id: "d1", L: []string{rapid.SampledFrom(c07Items).Draw(t, l+".target")}})
		case "deprule":
			// a rule for the same events as r1 that is a deleteWith
			// dependent of an expiring item (often of the rule r1)
			c.Ops = append(c.Ops, op{K: "deprule", Id: "r2", L: []string{rapid.SampledFrom([]string{"r1", "r1", "i1", "i2"}).Draw(t, l+".target")}})
		case "keep":
			// a rule for the same events that never expires
			c.Ops = append(c.Ops, op{K: "keep", Id: "keep"})
		case "get":
			c.Ops = append(c.Ops, op{K: "get", Id: rapid.SampledFrom(append([]string{"d1", "r2", "keep"}, c07Items...)).Draw(t, l+".id")})
		case "search", "event", "reload", "list", "clear":
			if k == "clear" && rapid.IntRange(0, 2).Draw(t, l+".really") != 0 {
				k = "search"
			}
			c.Ops = append(c.Ops, op{K: k})
		case "sleepTo":
			off := rapid.SampledFrom(c07Offsets).Draw(t, l+".off")
			if !usedFar && rapid.IntRange(0, 39).Draw(t, l+".far?") == 0 {
				// rarely: far beyond every expiry ("never expires" must
				// survive it); rare because rapid and the testing
				// package bound the total (virtual) run time
				off, usedFar = c07Far, true
			}
			c.Ops = append(c.Ops, op{K: "sleepTo", Id: rapid.SampledFrom(c07Items).Draw(t, l+".id"), N: off})
		case "sleep":
			c.Ops = append(c.Ops, op{K: "sleep", N: rapid.SampledFrom([]int64{1, 1e6, 500e6, 1e9, 2e9, 60e9}).Draw(t, l+".ns")})
		}
	}
	return c
}

func runC07(c c07Case) *vlib.Outcome {
	o := &vlib.Outcome{}
	if !vlib.Faketime {
		o.Fail("NEEDS_FAKETIME", "this check must be built with -tags faketime")
		return o
	}
	if c.Kind != "indexed" && c.Kind != "linear" {
		o.Discard = true
		return o
	}
	// start on a second boundary plus the offset
	now := time.Now()
	time.Sleep(time.Duration(int64(time.Second) - int64(now.Nanosecond()) + c.Offset%int64(time.Second)))

	var store core.Storage
	if c.Slow > 0 {
		mem, _ := core.NewMemStorage(newCtx())
		store = &slowStore{mem, time.Duration(c.Slow)}
		o.Label("slow-storage")
	}
	w := newWorld(c.Kind, store, o)
	w.strictEvents = true
	w.loadDesc = c.LoadDesc
	if c.Hooks {
		w.withCronHooks()
	}
	w.open("L")
	ml := w.model["L"]
	universe := append([]string{"d1", "r2", "keep"}, c07Items...)
	seenExp := map[string]float64{} // first observed `expires` per item
	nearBoundary, reloadBeforeE := false, false

	// expiredUnobserved: items past E that the model still holds
	maybeGone := func() map[string]bool {
		set := map[string]bool{}
		t := nowSecs()
		for id, it := range ml.Items {
			if it.live(t) != 1 {
				for _, d := range ml.dependents(id) {
					set[d] = true
				}
			}
		}
		// closure
		changed := true
		for changed {
			changed = false
			for id := range set {
				for _, d := range ml.dependents(id) {
					if !set[d] {
						set[d] = true
						changed = true
					}
				}
			}
		}
		return set
	}
	withMaybe := func(f func()) {
		mg := maybeGone()
		var added []string
		for id := range mg {
			if !ml.Unspec[id] {
				ml.Unspec[id] = true
				added = append(added, id)
			}
		}
		f()
		for _, id := range added {
			delete(ml.Unspec, id)
		}
	}
	// An expired item may be purged (with its dependents) by the
	// implementation at any instant from E on; it must be gone once it
	// has been observed.  Dependents that were stored before E are then
	// certainly gone too; dependents added after E may have been added
	// after the purge (a dangling target) and are unspecified.
	addedAt := map[string]int64{}
	var expireCascade func(id string, E int64)
	expireCascade = func(id string, E int64) {
		deps := ml.dependents(id)
		delete(ml.Items, id)
		delete(ml.Unspec, id)
		for _, d := range deps {
			if _, have := ml.Items[d]; !have {
				continue
			}
			if ml.Unspec[d] {
				ml.markUnspecClosure(d)
				continue
			}
			if addedAt[d] < E*int64(time.Second) {
				expireCascade(d, E)
			} else {
				ml.markUnspecClosure(d)
			}
		}
	}
	purge := func(ids []string, when string) {
		t := nowSecs()
		any := false
		for _, id := range ids {
			if it, have := ml.Items[id]; have && it.live(t) == 0 {
				expireCascade(id, it.ExpLo)
				any = true
			}
		}
		if any {
			o.Label("purge-observed")
			withMaybe(func() { w.checkStorage("L", when+" (purge of an observed expired item)") })
		}
	}

	for i, x := range c.Ops {
		t := time.Now()
		when := fmt.Sprintf("[%s] op %d %s at virtual %s", c.Kind, i, vlib.JSON(x), t.UTC().Format("15:04:05.000000000"))
		switch x.K {
		case "write":
			enc, _ := x.Doc["enc"].(string)
			d, _ := x.Doc["d"].(float64)
			floorNow := t.Unix()
			doc := M{"tag": x.Id}
			expiryAt := func(at time.Time) int64 {
				switch enc {
				case "expnum", "exprfc":
					return floorNow + int64(d)
				case "ttlnum", "ttlint":
					return at.Unix() + int64(d)
				case "ttlstr":
					return at.Add(time.Duration(d) * time.Millisecond).Unix()
				}
				return 0
			}
			switch enc {
			case "expnum":
				doc["expires"] = float64(expiryAt(t))
			case "exprfc":
				doc["expires"] = time.Unix(expiryAt(t), 0).UTC().Format(time.RFC3339)
			case "ttlnum":
				doc["ttl"] = d
			case "ttlint":
				doc["ttl"] = int64(d)
			case "ttlstr":
				doc["ttl"] = (time.Duration(d) * time.Millisecond).String()
			}
			var err error
			isRule := x.Id == "r1"
			if isRule {
				rule := mkRule(M{"a": "x"}, "r1")
				for _, k := range []string{"expires", "ttl"} {
					if v, have := doc[k]; have {
						rule[k] = v
					}
				}
				_, err = w.locs["L"].AddRule(newCtx(), x.Id, core.Map(rule))
			} else {
				_, err = w.locs["L"].AddFact(newCtx(), x.Id, core.Map(doc))
			}
			// the write took [t, t1] (storage may be slow): the instant
			// "now" lies somewhere in between
			t1 := time.Now()
			Elo, Ehi := expiryAt(t), expiryAt(t1)
			surelyExpired := enc != "none" && Ehi <= floorNow
			surelyLive := enc == "none" || Elo > t1.Unix()
			switch {
			case surelyExpired:
				o.Label("write-already-expired")
				if err == nil {
					o.Fail("EXPIRED_WRITE_ACCEPTED", "%s: writing an already-expired item (E=%d, now=%d) was accepted", when, Ehi, floorNow)
				}
			case surelyLive && err != nil:
				o.Fail("WRITE_REJECTED", "%s: write failed: %v (E in [%d,%d], now=%d..%d)", when, err, Elo, Ehi, floorNow, t1.Unix())
			}
			if err == nil && !surelyExpired {
				var it *mItem
				if isRule {
					wr := M{"rule": mkRule(M{"a": "x"}, "r1")}
					if enc != "none" {
						wr["expires"] = expBand{Elo, Ehi}
						wr["rule"].(M)["expires"] = expBand{Elo, Ehi}
					}
					it = modelFactItem(wr)
					it.Tag = "r1"
				} else {
					st := M{"tag": x.Id}
					if enc != "none" {
						st["expires"] = expBand{Elo, Ehi}
					}
					it = modelFactItem(st)
				}
				if enc != "none" {
					it.ExpLo, it.ExpHi = Elo, Ehi
				}
				if old, have := ml.Items[x.Id]; have && old.live(floorNow) != 1 {
					if c.Strict && old.live(floorNow) == 0 && !ml.Unspec[x.Id] {
						// the old item was deleted by its expiry, and
						// its dependents with it
						expireCascade(x.Id, old.ExpLo)
						o.Label("expired-item-overwritten")
					} else {
						// overwriting an expired, never observed item:
						// it (and its dependents) may or may not have
						// been purged before
						for _, d := range ml.dependents(x.Id) {
							ml.markUnspecClosure(d)
						}
					}
				}
				ml.put(x.Id, it)
				addedAt[x.Id] = t.UnixNano()
				delete(seenExp, x.Id)
			}
		case "dep":
			f := M{"tag": "d1", "deleteWith": toA(x.L)}
			if r := w.addFact("L", "d1", f); r.Err != nil {
				o.Fail("ADD_ERROR", "%s: %v", when, r.Err)
			}
			addedAt["d1"] = t.UnixNano()
		case "deprule":
			rule := mkRule(M{"a": "x"}, "r2")
			rule["deleteWith"] = toA(x.L)
			if r := w.addRule("L", "r2", rule); r.Err != nil {
				o.Fail("ADDRULE_ERROR", "%s: %v", when, r.Err)
			}
			addedAt["r2"] = t.UnixNano()
			o.Label("dependent-rule")
		case "keep":
			if r := w.addRule("L", "keep", mkRule(M{"a": "x"}, "keep")); r.Err != nil {
				o.Fail("ADDRULE_ERROR", "%s: %v", when, r.Err)
			}
			addedAt["keep"] = t.UnixNano()
		case "get":
			if it, have := ml.Items[x.Id]; have && it.ExpLo != 0 {
				if d := it.ExpLo*int64(time.Second) - t.UnixNano(); d >= -int64(time.Second) && d <= int64(time.Second) {
					nearBoundary = true
				}
			}
			withMaybe(func() { w.checkGet("L", x.Id, when) })
			// the expiry instant never moves: not by reads, not by reloads
			if it, have := ml.Items[x.Id]; have && it.ExpLo != 0 && it.live(nowSecs()) == 1 && ml.specified(x.Id) {
				if f, err := w.locs["L"].GetFact(newCtx(), x.Id); err == nil {
					if e, ok := refmatch.Num(f["expires"]); ok {
						if prev, seen := seenExp[x.Id]; seen && prev != e {
							o.Fail("EXPIRES_MOVED", "%s: item %q reported expires=%v earlier and reports %v now", when, x.Id, int64(prev), int64(e))
						}
						seenExp[x.Id] = e
					}
				}
			}
			purge([]string{x.Id}, when)
		case "search":
			withMaybe(func() { w.checkSearch("L", M{"tag": "?t"}, false, when) })
			purge([]string{"i1", "i2"}, when)
		case "list":
			withMaybe(func() { w.checkListRules("L", false, when) })
			purge([]string{"r1"}, when)
		case "event":
			ec := eventCmp{}
			withMaybe(func() { ec = w.checkEvent("L", M{"a": "x"}, when) })
			_ = ec
			purge([]string{"r1"}, when)
		case "clear":
			// Clearing the location works whatever has expired in it
			// (and leaves nothing behind, in memory or in storage).
			if err := w.clear("L"); err != nil {
				o.Fail("CLEAR", "%s: Clear failed: %v", when, err)
				return o
			}
			for id := range ml.Unspec {
				delete(ml.Unspec, id)
			}
			seenExp = map[string]float64{}
			o.Label("clear")
			w.checkStorage("L", when+" (after Clear)")
		case "reload":
			for _, it := range ml.Items {
				if it.ExpLo != 0 && it.live(nowSecs()) == 1 {
					reloadBeforeE = true
				}
			}
			if err := w.reload("L"); err != nil {
				o.Fail("RELOAD", "%s: reload failed: %v", when, err)
				return o
			}
		case "sleepTo":
			if it, have := ml.Items[x.Id]; have && it.ExpLo != 0 {
				target := it.ExpLo*int64(time.Second) + x.N
				if d := target - t.UnixNano(); d > 0 {
					time.Sleep(time.Duration(d))
					if x.N == c07Far {
						o.Label("sleep-far")
					} else {
						o.Label("sleep-to-boundary")
					}
				}
			}
		case "sleep":
			time.Sleep(time.Duration(x.N))
		}
		if os.Getenv("VERIF_DEBUG") != "" {
			keys, _ := w.storageKeys("L")
			fmt.Fprintf(os.Stderr, "DEBUG after %s: storage=%v model=%v unspec=%v\n", when, mapKeys(keys), len(ml.Items), ml.Unspec)
		}
		if o.Failed() {
			return o
		}
	}
	// final sweep
	withMaybe(func() {
		for _, id := range universe {
			w.checkGet("L", id, "["+c.Kind+"] at end")
		}
	})
	if nearBoundary || reloadBeforeE {
		o.NonTrivial = true
	}
	return o
}

func TestC07(t *testing.T) {
	vlib.Check(t, "C07", genC07, runC07)
}

// TestC08Expiry: the same histories read strictly (see c07Case.Strict): the
// cascade of a deletion by expiry does not depend on anybody having looked.
func TestC08Expiry(t *testing.T) {
	vlib.Check(t, "C08", func(t *rapid.T) c07Case {
		c := genC07(t)
		c.Strict = true
		return c
	}, runC07)
}
