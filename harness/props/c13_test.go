package props

// C13 — no input can crash, hang or poison a location.
//
// Hostile JSON documents (reserved keys with wrong types, variable-looking
// strings as data and keys, empty and deeply nested containers,
// heterogeneous arrays) are used as fact, rule, pattern, query, event and id
// against both state types, as a library and through sys.System.  Oracle:
// every call returns (a recovered panic, a fatal error, a hang are
// violations) and canary traffic on the same location then behaves exactly
// as on a fresh twin.

import (
	"encoding/json"
	"fmt"
	"runtime/debug"
	"strings"
	"testing"
	"time"

	"github.com/Comcast/rulio/core"
	"github.com/Comcast/rulio/cron"
	"github.com/Comcast/rulio/sys"
	"pgregory.net/rapid"

	"verif/harness/gen"
	"verif/harness/vlib"
)

func init() {
	// runaway recursion should die in milliseconds, not after 1 GB
	debug.SetMaxStack(64 << 20)
}

type c13Case struct {
	Kind  string      `json:"kind"`  // indexed | linear
	Level string      `json:"level"` // lib | sys
	Role  string      `json:"role"`  // fact | rule | pattern | rulesearch | query | event | id
	Id    string      `json:"id"`
	Doc   interface{} `json:"doc"`
	Deep  int         `json:"deep"` // wrap Doc in this many levels of nesting
	// Cron: 0 = schedules go to a cron that accepts anything (or, as a
	// library, nowhere); 1 = the real in-process cron (never started:
	// only its parsing and book-keeping is reached) behind the state hooks.
	Cron int `json:"cron,omitempty"`
	// Check: the System insists that locations are created first.
	Check bool `json:"check,omitempty"`
	// More hostile steps applied after the first one (so that, e.g., a
	// stored hostile fact meets a hostile pattern).
	More []c13Step `json:"more,omitempty"`
}

type c13Step struct {
	Role string `json:"role"`
	Id   string `json:"id"`
	Doc  M      `json:"doc"`
}

var c13Reserved = []string{"rule", "when", "pattern", "schedule", "expires", "ttl", "deleteWith", "id", "_id", "!p", "!q", "!createdAt", "!readKey", "!disabled", "!enabled", "!parents", "!writeKey",
	"actions", "action", "condition", "policies", "code", "endpoint", "opts", "libraries", "location", "locations", "and", "or", "not", "shortCircuit", "trigger!", "evaluate!", "once", "props", "x!"}
var c13Strings = []string{"x", "", "?", "?x", "??x", "?<n", "null", "S_x", "F_1", "B_true", "!", "!a.b", "+1s", "* * * * * * *", "javascript", "2100-01-01T00:00:00Z", "10h", "(((",
	"5-1 * * * *", "* 5-1 * * *", "59-0 * * * * * *", "* * * * * * 1999", "*/0 * * * *", "@yearly", "59-@yearly", "!2100-01-01T00:00:00Z", "!1999-01-01T00:00:00Z", "!x", "+1x", "+-1s", "1-2-3 * * * *", "* * 31 2 *", "60 * * * *", "* * * * 7-0", "L * * * *", "* * L * *", "* * 1W * *", "* * * * 5#9", "0 0 29 2 * * 2099"}

func c13Value(t *rapid.T, depth int, label string, qvars bool) interface{} {
	kinds := []string{"str", "str", "num", "bool", "null", "map", "map", "arr"}
	if depth <= 0 {
		kinds = kinds[:5]
	}
	switch rapid.SampledFrom(kinds).Draw(t, label+".kind") {
	case "str":
		s := rapid.SampledFrom(c13Strings).Draw(t, label+".s")
		if !qvars && strings.HasPrefix(s, "?") {
			return "q" + s[1:]
		}
		return s
	case "num":
		return rapid.SampledFrom([]float64{0, 1, -1, 1.5, 1e18, 1e308, -1e18, 4102444800}).Draw(t, label+".n")
	case "bool":
		return rapid.Bool().Draw(t, label+".b")
	case "null":
		return nil
	case "arr":
		n := rapid.IntRange(0, 3).Draw(t, label+".len")
		a := A{}
		for i := 0; i < n; i++ {
			a = append(a, c13Value(t, depth-1, fmt.Sprintf("%s[%d]", label, i), qvars))
		}
		return a
	default:
		return c13Map(t, depth-1, label, qvars)
	}
}

func c13Map(t *rapid.T, depth int, label string, qvars bool) M {
	n := rapid.IntRange(0, 4).Draw(t, label+".nkeys")
	m := M{}
	for i := 0; i < n; i++ {
		var k string
		if rapid.IntRange(0, 2).Draw(t, fmt.Sprintf("%s.k%d.res?", label, i)) != 0 {
			k = rapid.SampledFrom(c13Reserved).Draw(t, fmt.Sprintf("%s.k%d", label, i))
		} else {
			k = rapid.SampledFrom([]string{"a", "b", "", "?k", "?"}).Draw(t, fmt.Sprintf("%s.k%d", label, i))
			if !qvars && strings.HasPrefix(k, "?") {
				k = "k"
			}
		}
		m[k] = c13Value(t, depth, label+"."+k, qvars)
	}
	return m
}

func genC13(t *rapid.T) c13Case {
	var c c13Case
	c.Kind = rapid.SampledFrom([]string{"indexed", "linear"}).Draw(t, "kind")
	c.Level = rapid.SampledFrom([]string{"lib", "lib", "sys"}).Draw(t, "level")
	c.Role = rapid.SampledFrom([]string{"fact", "fact", "rule", "rule", "pattern", "rulesearch", "query", "event", "id"}).Draw(t, "role")
	c.Id = rapid.SampledFrom([]string{"", "h1", "canary0", "!x", "!canary0.disabled", "?x", strings.Repeat("i", 1100)}).Draw(t, "id")
	c.Cron = rapid.IntRange(0, 1).Draw(t, "cron")
	c.Check = rapid.Bool().Draw(t, "check-existence")
	// '?'-strings as *data* send the matcher dependency into unbounded
	// recursion (known finding); they are generated only in pattern-like
	// roles unless the finding is switched off
	qvars := c.Role == "pattern" || c.Role == "query" || c.Role == "rule" || !vlib.KnownActive("matcher-recursion-on-variable-data")
	if rapid.IntRange(0, 2).Draw(t, "wellformed?") == 0 {
		// start from a well-formed skeleton and corrupt one field
		switch c.Role {
		case "rule":
			r := M{"when": M{"pattern": M{"a": "?x"}}, "condition": M{"pattern": M{"b": "?x"}}, "action": M{"code": "'ok'"}}
			k := rapid.SampledFrom([]string{"when", "condition", "action", "actions", "schedule", "expires", "ttl", "deleteWith", "policies", "once", "props"}).Draw(t, "corrupt")
			r[k] = c13Value(t, 2, "corrupt."+k, qvars)
			if k == "schedule" && rapid.Bool().Draw(t, "schedule-string") {
				r[k] = rapid.SampledFrom(c13Strings).Draw(t, "schedule")
			}
			c.Doc = r
		case "fact":
			f := M{"a": "x"}
			k := rapid.SampledFrom([]string{"rule", "expires", "ttl", "deleteWith", "id", "!p", "_id", "!createdAt", "!parents", "!disabled"}).Draw(t, "corrupt")
			f[k] = c13Value(t, 2, "corrupt."+k, qvars)
			c.Doc = f
		case "query":
			q := M{"and": A{M{"pattern": M{"a": "?x"}}}}
			k := rapid.SampledFrom([]string{"and", "or", "not", "pattern", "code", "shortCircuit", "locations", "location", "libraries"}).Draw(t, "corrupt")
			q[k] = c13Value(t, 2, "corrupt."+k, qvars)
			c.Doc = q
		default:
			c.Doc = c13Map(t, 2, "doc", qvars)
		}
	} else {
		c.Doc = c13Map(t, 3, "doc", qvars)
	}
	if (c.Role == "rule" || c.Role == "fact") && rapid.IntRange(0, 3).Draw(t, "scheduled?") == 0 {
		// a schedule (cron expression, one-shot, or neither) in a rule,
		// or in a fact that looks like a rule to the cron hook
		var sch string
		if rapid.Bool().Draw(t, "schedule-made") {
			n := rapid.SampledFrom([]int{5, 5, 6, 7, 4, 8}).Draw(t, "schedule-fields")
			fs := []string{}
			for i := 0; i < n; i++ {
				fs = append(fs, rapid.SampledFrom([]string{"*", "*", "*", "5", "0", "1-5", "5-1", "*/5", "*/0", "5/0", "1,2", "2,1", "L", "?", "60", "-1", "x", "", "1-", "-", "*/", "1-5/2", "5-1/2", "JAN", "MON-SUN", "SUN-MON", "1#1", "LW", "15W", "99", "1970", "2099", "2099-1970"}).Draw(t, fmt.Sprintf("schedule-field%d", i)))
			}
			sch = strings.Join(fs, " ")
		} else {
			sch = rapid.SampledFrom(c13Strings).Draw(t, "schedule")
		}
		r := M{"schedule": sch, "action": M{"code": "'tick'"}}
		if c.Role == "fact" {
			c.Doc = M{"rule": r, "a": "x"}
		} else {
			c.Doc = r
		}
	}
	if rapid.IntRange(0, 9).Draw(t, "deep?") == 0 {
		c.Deep = rapid.SampledFrom([]int{9, 50, 200}).Draw(t, "deep")
	}
	nmore := rapid.SampledFrom([]int{0, 0, 1, 2}).Draw(t, "nmore")
	for i := 0; i < nmore; i++ {
		l := fmt.Sprintf("more%d", i)
		st := c13Step{
			Role: rapid.SampledFrom([]string{"fact", "rule", "pattern", "rulesearch", "query", "event"}).Draw(t, l+".role"),
			Id:   rapid.SampledFrom([]string{"", "h1", "h2"}).Draw(t, l+".id"),
		}
		// mostly small documents over a tiny alphabet that can meet the
		// first document: repeated variables, '?'-strings
		sq := st.Role == "pattern" || st.Role == "query" || st.Role == "rule" || !vlib.KnownActive("matcher-recursion-on-variable-data")
		if rapid.Bool().Draw(t, l+".small") {
			st.Doc = M{}
			for _, k := range []string{"a", "b"} {
				if rapid.IntRange(0, 3).Draw(t, l+"."+k+"?") != 0 {
					v := rapid.SampledFrom([]interface{}{"?x", "?x", "?y", "x", A{"?x"}, M{"a": "?x"}}).Draw(t, l+"."+k)
					if !sq {
						v = unvar(v)
					}
					st.Doc[k] = v
				}
			}
			if st.Role == "query" {
				st.Doc = M{"pattern": st.Doc}
			}
			if st.Role == "rule" {
				st.Doc = M{"when": M{"pattern": st.Doc}, "action": M{"code": "'hostile'"}}
			}
		} else {
			st.Doc = c13Map(t, 2, l+".doc", sq)
		}
		c.More = append(c.More, st)
	}
	if rapid.IntRange(0, 5).Draw(t, "selfbinding?") == 0 {
		// A variable-looking string as *data* that a pattern binds to the
		// variable of the same name ("?w" -> "?w"), and a later conjunct or
		// rule condition that uses the variable again.  (Each pattern
		// holds the variable once: the matcher dependency's recursion on
		// repeated variables is the known finding and stays excluded.)
		switch rapid.IntRange(0, 3).Draw(t, "selfbinding") {
		case 3:
			// (not a self-binding: a script that tries to store a fact
			// which cannot be written as JSON; the write must fail
			// without leaving anything behind that later searches meet)
			bad := rapid.SampledFrom([]string{"0/0", "1/0", "-1/0"}).Draw(t, "unstorable")
			c.More = []c13Step{
				{Role: "rule", Id: "h1", Doc: M{"when": M{"pattern": M{"poke": "?p"}}, "action": M{"code": "Env.AddFact('bad', {canary: 'bad', n: " + bad + "}); 'poked'"}}},
				{Role: "event", Id: "", Doc: M{"poke": "1"}},
			}
		case 0:
			c.More = []c13Step{
				{Role: "fact", Id: "", Doc: M{"kind": "g", "template": "?w"}},
				{Role: "query", Id: "", Doc: M{"and": A{M{"pattern": M{"template": "?w"}}, M{"pattern": M{"kind": "?k", "template": "?w"}}}}},
			}
		case 1:
			c.More = []c13Step{
				{Role: "rule", Id: "h1", Doc: M{"when": M{"pattern": M{"greet": M{"name": "?w"}}}, "condition": M{"pattern": M{"kind": "?w"}}, "action": M{"code": "'hostile'"}}},
				{Role: "event", Id: "", Doc: M{"greet": M{"name": "?w"}}},
			}
		default:
			c.More = []c13Step{
				{Role: "fact", Id: "", Doc: M{"t": M{"name": "?w"}}},
				{Role: "query", Id: "", Doc: M{"and": A{M{"pattern": M{"t": "?w"}}, M{"pattern": M{"t": "?w"}}}}},
			}
		}
	}
	return c
}

// callGuard runs f with a real-time bound; a panic or a hang is reported.
func callGuard(o *vlib.Outcome, what string, f func()) bool {
	done := make(chan interface{}, 1)
	go func() {
		defer func() {
			r := recover()
			if r != nil {
				r = fmt.Sprintf("%v\n%s", r, debug.Stack())
			}
			done <- r
		}()
		f()
	}()
	select {
	case r := <-done:
		if r != nil {
			o.Fail("PANIC", "%s panicked: %v", what, r)
			return false
		}
		return true
	case <-time.After(8 * time.Second):
		o.Fail("HANG", "%s did not return within 8s", what)
		return false
	}
}

type c13Target interface {
	addFact(id string, doc M) (string, error)
	addRule(id string, doc M) (string, error)
	remRule(id string) error
	remFact(id string) error
	getFact(id string) (string, error)
	search(p M) (string, error)
	searchRules(e M) (string, error)
	query(q M) (string, error)
	event(e M) (string, error)
	listRules() (string, error)
}

type c13Lib struct{ loc *core.Location }

func normSearch(srs *core.SearchResults, err error) (string, error) {
	if err != nil {
		return "", err
	}
	var rows []string
	for _, sr := range srs.Found {
		rows = append(rows, sr.Id+fmt.Sprint(len(sr.Bindingss)))
	}
	sortStrings(rows)
	return strings.Join(rows, ","), nil
}

func (l c13Lib) addFact(id string, doc M) (string, error) {
	return l.loc.AddFact(newCtx(), id, core.Map(doc))
}
func (l c13Lib) addRule(id string, doc M) (string, error) {
	return l.loc.AddRule(newCtx(), id, core.Map(doc))
}
func (l c13Lib) remRule(id string) error { _, err := l.loc.RemRule(newCtx(), id); return err }
func (l c13Lib) remFact(id string) error { _, err := l.loc.RemFact(newCtx(), id); return err }
func (l c13Lib) getFact(id string) (string, error) {
	f, err := l.loc.GetFact(newCtx(), id)
	if err != nil {
		return "", err
	}
	return vlib.JSON(map[string]interface{}(f)), nil
}
func (l c13Lib) search(p M) (string, error) {
	return normSearch(l.loc.SearchFacts(newCtx(), core.Map(p), true))
}
func (l c13Lib) searchRules(e M) (string, error) {
	rs, err := l.loc.SearchRules(newCtx(), core.Map(e), true)
	if err != nil {
		return "", err
	}
	var ids []string
	for id := range rs {
		ids = append(ids, id)
	}
	sortStrings(ids)
	return strings.Join(ids, ","), nil
}
func (l c13Lib) query(q M) (string, error) {
	js, _ := json.Marshal(q)
	qr, err := l.loc.Query(newCtx(), string(js))
	if err != nil {
		return "", err
	}
	return fmt.Sprint(len(qr.Bss)), nil
}
func normEvent(work *core.FindRules) string {
	var vals []string
	if work != nil {
		for _, v := range work.Values {
			vals = append(vals, fmt.Sprint(v))
		}
	}
	sortStrings(vals)
	return strings.Join(vals, ",")
}
func (l c13Lib) event(e M) (string, error) {
	ctx := newCtx()
	ctx.SetLoc(l.loc)
	work, cond := l.loc.ProcessEvent(ctx, core.Map(e))
	if cond != nil {
		return normEvent(work), fmt.Errorf("%s", cond.Msg)
	}
	return normEvent(work), nil
}
func (l c13Lib) listRules() (string, error) {
	rs, err := l.loc.ListRules(newCtx(), true)
	sortStrings(rs)
	return strings.Join(rs, ","), err
}

type c13Sys struct {
	s   *sys.System
	loc string
}

func js(m M) string { b, _ := json.Marshal(m); return string(b) }

func (l c13Sys) addFact(id string, doc M) (string, error) {
	return l.s.AddFact(newCtx(), l.loc, id, js(doc))
}
func (l c13Sys) addRule(id string, doc M) (string, error) {
	return l.s.AddRule(newCtx(), l.loc, id, js(doc))
}
func (l c13Sys) remRule(id string) error { _, err := l.s.RemRule(newCtx(), l.loc, id); return err }
func (l c13Sys) remFact(id string) error { _, err := l.s.RemFact(newCtx(), l.loc, id); return err }
func (l c13Sys) getFact(id string) (string, error) {
	s, err := l.s.GetFact(newCtx(), l.loc, id)
	if err != nil {
		return "", err
	}
	var m M
	json.Unmarshal([]byte(s), &m)
	return vlib.JSON(m), nil
}
func (l c13Sys) search(p M) (string, error) {
	return normSearch(l.s.SearchFacts(newCtx(), l.loc, js(p), true))
}
func (l c13Sys) searchRules(e M) (string, error) {
	rs, err := l.s.SearchRules(newCtx(), l.loc, js(e), true)
	if err != nil {
		return "", err
	}
	var ids []string
	for id := range rs {
		ids = append(ids, id)
	}
	sortStrings(ids)
	return strings.Join(ids, ","), nil
}
func (l c13Sys) query(q M) (string, error) {
	qr, err := l.s.Query(newCtx(), l.loc, js(q))
	if err != nil {
		return "", err
	}
	return fmt.Sprint(len(qr.Bss)), nil
}
func (l c13Sys) event(e M) (string, error) {
	work, err := l.s.ProcessEvent(newCtx(), l.loc, js(e))
	return normEvent(work), err
}
func (l c13Sys) listRules() (string, error) {
	rs, err := l.s.ListRules(newCtx(), l.loc, true)
	sortStrings(rs)
	return strings.Join(rs, ","), err
}

func sortStrings(s []string) {
	for i := 1; i < len(s); i++ {
		for j := i; j > 0 && s[j] < s[j-1]; j-- {
			s[j], s[j-1] = s[j-1], s[j]
		}
	}
}

type nullCron struct{}

func (nullCron) ScheduleEvent(ctx *core.Context, se *cron.ScheduledEvent) error { return nil }
func (nullCron) Schedule(ctx *core.Context, sw *cron.ScheduledWork) error       { return nil }
func (nullCron) Rem(ctx *core.Context, id string) (bool, error)                 { return false, nil }
func (nullCron) Persistent() bool                                               { return true }

func c13NewTarget(c c13Case, o *vlib.Outcome) c13Target {
	if c.Level == "sys" {
		conf := sys.ExampleConfig()
		conf.UnindexedState = c.Kind == "linear"
		conf.CheckExistence = c.Check
		cont := sys.ExampleSystemControl()
		cont.Timing = false
		cont.LocationTTL = sys.Forever
		cont.DefaultLocControl = quietControl()
		var cronner cron.Cronner = nullCron{}
		if c.Cron == 1 {
			cr, _ := cron.NewCron(nil, time.Second, "c13cron", 1000)
			cronner = &cron.InternalCron{Cron: cr}
			o.Label("real-cron")
		}
		s, err := sys.NewSystem(newCtx(), *conf, *cont, cronner)
		if err != nil {
			o.Fail("NEWSYSTEM", "%v", err)
			return nil
		}
		if c.Check {
			o.Label("check-existence")
			if _, err := s.CreateLocation(newCtx(), "L"); err != nil {
				o.Fail("NEWSYSTEM", "CreateLocation: %v", err)
				return nil
			}
		}
		return c13Sys{s, "L"}
	}
	w := newWorld(c.Kind, nil, o)
	if c.Cron == 1 {
		cr, _ := cron.NewCron(nil, time.Second, "c13cron", 1000)
		w.hooks = func(st core.State) { cron.AddHooks(newCtx(), &cron.InternalCron{Cron: cr}, st) }
		o.Label("real-cron")
	}
	loc, err := w.open("L")
	if err != nil {
		o.Fail("OPEN", "%v", err)
		return nil
	}
	return c13Lib{loc}
}

// canary runs healthy traffic and returns a transcript.
func c13Canary(o *vlib.Outcome, tg c13Target, phase string) []string {
	var tr []string
	rec := func(what string, res string, err error) {
		e := "ok"
		if err != nil {
			e = "error: " + err.Error()
		}
		tr = append(tr, fmt.Sprintf("%s -> %s %s", what, res, e))
	}
	steps := []struct {
		what string
		f    func() (string, error)
	}{
		{"AddFact canary1", func() (string, error) { _, err := tg.addFact("canary1", M{"canary": "c1"}); return "", err }},
		{"GetFact canary1", func() (string, error) { return tg.getFact("canary1") }},
		{"GetFact canary0", func() (string, error) { return tg.getFact("canary0") }},
		{"GetFact canaryDep", func() (string, error) { return tg.getFact("canaryDep") }},
		{"SearchFacts deleteWith", func() (string, error) { return tg.search(M{"deleteWith": A{"?d"}}) }},
		{"SearchFacts canary", func() (string, error) { return tg.search(M{"canary": "?c"}) }},
		{"ListRules", func() (string, error) { return tg.listRules() }},
		{"SearchRules canaryEvent", func() (string, error) { return tg.searchRules(M{"canaryEvent": "go"}) }},
		{"ProcessEvent canaryEvent", func() (string, error) { return tg.event(M{"canaryEvent": "go"}) }},
		{"Query canary", func() (string, error) { return tg.query(M{"pattern": M{"canary": "?c"}}) }},
		{"RemFact canary1", func() (string, error) { return "", tg.remFact("canary1") }},
		{"GetFact canary1 again", func() (string, error) { return tg.getFact("canary1") }},
	}
	for _, s := range steps {
		var res string
		var err error
		if !callGuard(o, phase+" "+s.what, func() { res, err = s.f() }) {
			return tr
		}
		rec(s.what, res, err)
	}
	return tr
}

func c13Setup(tg c13Target) error {
	if _, err := tg.addFact("canary0", M{"canary": "c0"}); err != nil {
		return err
	}
	// something that depends on the canary (and, like the properties of a
	// location, on nothing else)
	if _, err := tg.addFact("canaryDep", M{"canary": "dep", "deleteWith": A{"canary0"}}); err != nil {
		return err
	}
	_, err := tg.addRule("canaryRule", M{"when": M{"pattern": M{"canaryEvent": "?v"}}, "condition": M{"pattern": M{"canary": "c0"}}, "action": M{"code": "'canary-fired'"}})
	return err
}

func nest(doc interface{}, n int) interface{} {
	for i := 0; i < n; i++ {
		if i%2 == 0 {
			doc = M{"a": doc}
		} else {
			doc = A{doc}
		}
	}
	return doc
}

func runC13(c c13Case) *vlib.Outcome {
	o := &vlib.Outcome{}
	if c.Kind != "indexed" && c.Kind != "linear" {
		o.Discard = true
		return o
	}
	doc, _ := gen.DeepCopy(c.Doc).(M)
	if doc == nil {
		doc = M{}
	}
	if c.Deep > 0 {
		doc = M{"a": nest(doc, c.Deep), "b": "x"}
		o.Label("deep")
	}
	if gen.Depth(doc) > 8 {
		o.NonTrivial = true
	}
	for _, k := range c13Reserved {
		if _, have := doc[k]; have {
			o.NonTrivial = true
		}
	}
	desc := fmt.Sprintf("[%s/%s] %s id %q doc %s", c.Kind, c.Level, c.Role, c.Id, truncate(vlib.JSON(doc), 600))

	// fresh twin: the canary transcript without the hostile input
	twin := c13NewTarget(c, o)
	if twin == nil {
		return o
	}
	if err := c13Setup(twin); err != nil {
		o.Fail("SETUP", "canary setup failed: %v", err)
		return o
	}
	want := c13Canary(o, twin, "twin")
	if o.Failed() {
		return o
	}

	tg := c13NewTarget(c, o)
	if tg == nil {
		return o
	}
	if err := c13Setup(tg); err != nil {
		o.Fail("SETUP", "canary setup failed: %v", err)
		return o
	}
	steps := append([]c13Step{{c.Role, c.Id, doc}}, c.More...)
	comparable := true
	var toRemove []string
	for si, st := range steps {
		var err error
		var gotId string
		sdesc := desc
		if si > 0 {
			sdesc = fmt.Sprintf("%s; then step %d %s id %q doc %s", desc, si, st.Role, st.Id, truncate(vlib.JSON(st.Doc), 300))
			desc = sdesc
		}
		sdoc, _ := gen.DeepCopy(st.Doc).(M)
		if sdoc == nil {
			sdoc = M{}
		}
		ok := callGuard(o, sdesc, func() {
			switch st.Role {
			case "fact":
				gotId, err = tg.addFact(st.Id, sdoc)
			case "rule":
				gotId, err = tg.addRule(st.Id, sdoc)
			case "pattern":
				_, err = tg.search(sdoc)
			case "rulesearch":
				_, err = tg.searchRules(sdoc)
			case "query":
				_, err = tg.query(sdoc)
			case "event":
				_, err = tg.event(sdoc)
			case "id":
				_, err = tg.getFact(st.Id)
				err = tg.remFact(st.Id)
				err = tg.remRule(st.Id)
			}
		})
		if !ok {
			return o
		}
		if err == nil {
			o.Label("accepted-" + st.Role)
		} else {
			o.Label("rejected-" + st.Role)
		}
		if err == nil && (st.Role == "fact" || st.Role == "rule") {
			_, wk := sdoc["!writeKey"]
			_, rk := sdoc["!readKey"]
			if _, en := sdoc["!enabled"]; en {
				// (the location's off switch; an off location
				// refuses everything, the removal included)
				wk = true
			}
			if gotId == "canary0" || gotId == "canaryDep" || gotId == "canaryRule" || gotId == "" || wk || rk {
				// overwrote the canary or locked the location:
				// not comparable with the twin
				comparable = false
			} else {
				// (generated ids and the canonical ids of
				// property facts are what the call returned)
				dup := false
				for _, x := range toRemove {
					if x == gotId {
						dup = true
					}
				}
				if !dup {
					toRemove = append(toRemove, gotId)
				}
			}
		}
		if st.Role == "id" && (st.Id == "canary0" || st.Id == "canaryRule") {
			comparable = false
		}
	}
	if !comparable {
		o.Label("not-comparable")
		// still: traffic must not crash or hang
		c13Canary(o, tg, "after "+desc+":")
		return o
	}
	// accepted hostile facts and rules stay; take them out again so that
	// the canary compares like with like (removal itself must work)
	for _, id := range toRemove {
		var err error
		if !callGuard(o, "RemFact "+id+" after "+desc, func() { err = tg.remFact(id) }) {
			return o
		}
		if err != nil {
			o.Fail("CANNOT_REMOVE", "after %s the accepted item %q cannot be removed: %v", desc, id, err)
			return o
		}
	}
	accepted := len(toRemove) > 0
	if s, is := tg.(c13Sys); is && c.Check {
		// (the hostile item may have been the location's creation
		// marker, which went with it)
		var err error
		if !callGuard(o, "CreateLocation after "+desc, func() { _, err = s.s.CreateLocation(newCtx(), s.loc) }) {
			return o
		}
		if err != nil {
			o.Fail("POISONED", "after %s (accepted=%v) the location cannot be created (again): %v", desc, accepted, err)
			return o
		}
	}
	got := c13Canary(o, tg, "after "+desc+":")
	if o.Failed() {
		return o
	}
	if strings.Join(got, "\n") != strings.Join(want, "\n") {
		for i := range want {
			if i >= len(got) || got[i] != want[i] {
				g := "<missing>"
				if i < len(got) {
					g = got[i]
				}
				o.Fail("POISONED", "after %s (accepted=%v) the location no longer serves normally: %q, fresh location: %q", desc, accepted, g, want[i])
				break
			}
		}
	}
	return o
}

// unvar replaces variable-looking strings by plain ones.
func unvar(x interface{}) interface{} {
	switch v := x.(type) {
	case string:
		if strings.HasPrefix(v, "?") {
			return "q" + v[1:]
		}
	case A:
		n := make(A, len(v))
		for i, y := range v {
			n[i] = unvar(y)
		}
		return n
	case M:
		n := M{}
		for k, y := range v {
			n[k] = unvar(y)
		}
		return n
	}
	return x
}

func truncate(s string, n int) string {
	if len(s) > n {
		return s[:n] + "..."
	}
	return s
}

func TestC13(t *testing.T) {
	vlib.Check(t, "C13", genC13, runC13)
}

func FuzzC13(f *testing.F) { vlib.Fuzz(f, "C13", genC13, runC13) }
