package props

// C12 — concurrent requests to one location are atomic.
//
// Generated workloads: 2-8 client goroutines, 3-8 operations each from
// AddFact / RemFact / GetFact / SearchFacts / AddRule / RemRule / EnableRule /
// RuleEnabled / GetRule / ProcessEvent over 2-3 shared ids of ONE location; values carry
// (client, seq) so that reads are attributable.  Oracles:
//  1. porcupine (linearizability) over the recorded call/return history with
//     a sequential model of these operations; the final GetFact of every id
//     is part of the history;
//  2. the final storage snapshot equals the final in-memory state;
//  3. no crash (e.g. concurrent map access is fatal), no deadlock;
//  4. in the race build: no data race report (parsed by the runner).

import (
	"encoding/json"
	"fmt"
	"sort"
	"strings"
	"sync"
	"testing"
	"time"

	"github.com/Comcast/rulio/core"
	"github.com/anishathalye/porcupine"
	"pgregory.net/rapid"

	"verif/harness/refmatch"
	"verif/harness/vlib"
)

type c12Op struct {
	K  string `json:"k"` // addFact remFact getFact search addRule remRule enable disable event
	Id string `json:"id,omitempty"`
}

type c12Case struct {
	Kind    string    `json:"kind"`
	Clients [][]c12Op `json:"clients"`
	Spin    []int     `json:"spin"`
	// Repeat > 1 runs the workload that many times on fresh locations (used
	// by reproducers of schedule-dependent findings).
	Repeat int `json:"repeat,omitempty"`
	// StoreDelayUs makes every storage write take this long.  Writes happen
	// inside the states' locked sections, so the other clients queue up on
	// the lock and run in the gaps between the locked steps of a request.
	StoreDelayUs int `json:"storeDelayUs,omitempty"`
	// Hooks installs the cron state hooks (as sys.System does): the hooks
	// run inside the locked sections with a per-context privilege.
	Hooks bool `json:"hooks,omitempty"`
	// EnvActions makes the rules' actions write a fact of their own
	// (Env.AddFact) besides returning their tag.
	EnvActions bool `json:"envActions,omitempty"`
	// Mut: every rule has two actions, which run in parallel and both
	// write into the object that the rule's `when` binds from the event.
	Mut bool `json:"mut,omitempty"`
	// Noise > 0 switches the location's timers on and hangs a PointHook on
	// every client context: rulio calls it whenever a timed section ends -
	// at the end of every state and location operation, after its locks
	// are released - and the hook then yields or sleeps a little
	// (pseudo-randomly from Noise), which stretches the gaps between the
	// locked steps of composite requests.
	Noise int `json:"noise,omitempty"`
}

// c12SlowStore delays writes (see StoreDelayUs).
type c12SlowStore struct {
	core.Storage
	delay time.Duration
}

func (s *c12SlowStore) Add(ctx *core.Context, loc string, data *core.Pair) error {
	time.Sleep(s.delay)
	return s.Storage.Add(ctx, loc, data)
}

func (s *c12SlowStore) Remove(ctx *core.Context, loc string, k []byte) (int64, error) {
	time.Sleep(s.delay)
	return s.Storage.Remove(ctx, loc, k)
}

var c12FactIds = []string{"f1", "f2"}
var c12RuleIds = []string{"r1", "r2"}

func genC12(t *rapid.T) c12Case {
	var c c12Case
	c.Kind = rapid.SampledFrom([]string{"indexed", "linear"}).Draw(t, "kind")
	// focus concentrates the clients on one id and one family of operations
	// (more overlapping requests on the same thing per case)
	focus := rapid.SampledFrom([]string{"mixed", "mixed", "rules", "facts"}).Draw(t, "focus")
	kinds := []string{"addFact", "addFact", "addFact", "remFact", "getFact", "getFact", "search", "searchKind", "addRule", "remRule", "disable", "enable", "event", "isEnabled", "getRule"}
	factIds, ruleIds := c12FactIds, c12RuleIds
	maxClients := 8
	switch focus {
	case "rules":
		kinds = []string{"addRule", "addRule", "remRule", "remRule", "disable", "disable", "enable", "event", "isEnabled", "getRule"}
		ruleIds = []string{rapid.SampledFrom(c12RuleIds).Draw(t, "focusId")}
		maxClients = 4
	case "facts":
		kinds = []string{"addFact", "addFact", "remFact", "remFact", "getFact", "search", "searchKind", "searchKind"}
		factIds = []string{rapid.SampledFrom(c12FactIds).Draw(t, "focusId")}
		maxClients = 4
	}
	nc := rapid.IntRange(2, maxClients).Draw(t, "nclients")
	for i := 0; i < nc; i++ {
		n := rapid.IntRange(3, 8).Draw(t, fmt.Sprintf("c%d.n", i))
		var ops []c12Op
		for j := 0; j < n; j++ {
			l := fmt.Sprintf("c%d.o%d", i, j)
			k := rapid.SampledFrom(kinds).Draw(t, l+".k")
			x := c12Op{K: k}
			switch k {
			case "addFact", "remFact", "getFact":
				x.Id = rapid.SampledFrom(factIds).Draw(t, l+".id")
			case "addRule", "remRule", "disable", "enable", "isEnabled", "getRule":
				x.Id = rapid.SampledFrom(ruleIds).Draw(t, l+".id")
			}
			ops = append(ops, x)
		}
		c.Clients = append(c.Clients, ops)
		c.Spin = append(c.Spin, rapid.SampledFrom([]int{0, 0, 100, 1000, 10000}).Draw(t, fmt.Sprintf("c%d.spin", i)))
	}
	c.StoreDelayUs = rapid.SampledFrom([]int{0, 0, 20, 100}).Draw(t, "storeDelayUs")
	c.Hooks = rapid.IntRange(0, 2).Draw(t, "hooks") == 0
	c.EnvActions = rapid.IntRange(0, 2).Draw(t, "envActions") == 0
	c.Mut = rapid.IntRange(0, 3).Draw(t, "mut") == 0
	if rapid.Bool().Draw(t, "noise?") {
		c.Noise = rapid.IntRange(1, 1000).Draw(t, "noise")
	}
	if focus != "mixed" {
		// several runs of a focused workload sample several schedules
		c.Repeat = rapid.SampledFrom([]int{1, 3, 10}).Draw(t, "repeat")
	}
	return c
}

// c12Kind: the name of the second property of a fact, one of two, a function
// of the fact's (unique) value.
func c12Kind(v string) string {
	if n := len(v); n > 0 && (v[n-1]-'0')%2 == 0 {
		return "ka"
	}
	return "kb"
}

// sequential model --------------------------------------------------------

type c12State struct {
	Facts    map[string]string // id -> value
	Rules    map[string]string // id -> tag
	Disabled map[string]bool
}

func (s c12State) clone() c12State {
	n := c12State{map[string]string{}, map[string]string{}, map[string]bool{}}
	for k, v := range s.Facts {
		n.Facts[k] = v
	}
	for k, v := range s.Rules {
		n.Rules[k] = v
	}
	for k, v := range s.Disabled {
		n.Disabled[k] = v
	}
	return n
}

func (s c12State) key() string {
	var parts []string
	for k, v := range s.Facts {
		parts = append(parts, "f:"+k+"="+v)
	}
	for k, v := range s.Rules {
		parts = append(parts, "r:"+k+"="+v)
	}
	for k, v := range s.Disabled {
		if v {
			parts = append(parts, "d:"+k)
		}
	}
	sort.Strings(parts)
	return strings.Join(parts, ";")
}

type c12In struct {
	K, Id, V string
	// Free marks an event that overlapped a rule operation of another
	// client (set after the run; see event-dispatch-not-atomic).
	Free bool
	// Hooks: the state has the cron hooks, with which removing something
	// that is not there reports not-found (and removes nothing).
	Hooks bool
	// Env: the rule's action also writes a fact (addRule only).
	Env bool
	// Mut: rules have two actions that write into a bound object.
	Mut bool
}

type c12Out struct {
	Err string
	Res string
}

func c12Step(st interface{}, in interface{}, out interface{}) (bool, interface{}) {
	s := st.(c12State)
	i, o := in.(c12In), out.(c12Out)
	switch i.K {
	case "addFact":
		n := s.clone()
		n.Facts[i.Id] = i.V
		return o.Err == "", n
	case "remFact":
		if _, have := s.Facts[i.Id]; !have && i.Hooks {
			// (removing what is not there: silently accepted by the
			// states, reported as not-found by the hooks; either way
			// nothing changes)
			return o.Err == "notfound" || o.Err == "", s
		}
		n := s.clone()
		delete(n.Facts, i.Id)
		return o.Err == "", n
	case "getFact":
		v, have := s.Facts[i.Id]
		if !have {
			return o.Err == "notfound", s
		}
		return o.Err == "" && o.Res == v, s
	case "search":
		var rows []string
		for id, v := range s.Facts {
			rows = append(rows, id+"="+v)
		}
		sort.Strings(rows)
		return o.Err == "" && o.Res == strings.Join(rows, ","), s
	case "searchKind":
		var rows []string
		for id, v := range s.Facts {
			if c12Kind(v) == "ka" {
				rows = append(rows, id)
			}
		}
		sort.Strings(rows)
		return o.Err == "" && o.Res == strings.Join(rows, ","), s
	case "addRule":
		n := s.clone()
		n.Rules[i.Id] = i.V
		return o.Err == "", n
	case "remRule":
		if _, have := s.Rules[i.Id]; !have && i.Hooks && o.Err == "notfound" {
			// (nothing was removed, the disabled flag stays)
			return true, s
		}
		n := s.clone()
		delete(n.Rules, i.Id)
		delete(n.Disabled, i.Id)
		return o.Err == "", n
	case "disable":
		n := s.clone()
		n.Disabled[i.Id] = true
		return o.Err == "", n
	case "enable":
		if !s.Disabled[i.Id] && i.Hooks {
			return o.Err == "notfound" || o.Err == "", s
		}
		n := s.clone()
		delete(n.Disabled, i.Id)
		return o.Err == "", n
	case "isEnabled":
		return o.Err == "" && o.Res == fmt.Sprint(!s.Disabled[i.Id]), s
	case "getRule":
		v, have := s.Rules[i.Id]
		if !have {
			return o.Err == "notfound", s
		}
		return o.Err == "" && o.Res == v, s
	case "event":
		var vals []string
		for id, tag := range s.Rules {
			if !s.Disabled[id] {
				vals = append(vals, tag)
			}
		}
		sort.Strings(vals)
		return o.Err == "" && o.Res == strings.Join(vals, ","), s
	}
	return false, s
}

// c12ModelFreeEvents accepts any result for an event that ran while another
// client's rule operation was in flight: used to tell whether a history is
// non-linearizable only because of such an event's result.  Events that did
// not overlap a rule operation stay fully constrained (a stale rule served
// after the writer returned is not this finding).
var c12ModelFreeEvents = porcupine.Model{
	Init: func() interface{} { return c12State{map[string]string{}, map[string]string{}, map[string]bool{}} },
	Step: func(st interface{}, in interface{}, out interface{}) (bool, interface{}) {
		if i := in.(c12In); i.K == "event" && i.Free {
			return out.(c12Out).Err == "", st
		}
		return c12Step(st, in, out)
	},
	Equal: func(a, b interface{}) bool { return a.(c12State).key() == b.(c12State).key() },
}

var c12Model = porcupine.Model{
	Init:  func() interface{} { return c12State{map[string]string{}, map[string]string{}, map[string]bool{}} },
	Step:  c12Step,
	Equal: func(a, b interface{}) bool { return a.(c12State).key() == b.(c12State).key() },
	DescribeOperation: func(in, out interface{}) string {
		return fmt.Sprintf("%+v -> %+v", in, out)
	},
}

// execution ----------------------------------------------------------------

func c12Exec(loc *core.Location, in c12In) c12Out { return c12ExecNoisy(loc, in, nil) }

func c12ExecNoisy(loc *core.Location, in c12In, noise *schedNoise) c12Out {
	ctx := newCtx()
	ctx.SetLoc(loc)
	if noise != nil {
		ctx.PointHook = noise.hook
	}
	errStr := func(err error) string {
		if err == nil {
			return ""
		}
		if _, nf := err.(*core.NotFoundError); nf {
			return "notfound"
		}
		return err.Error()
	}
	switch in.K {
	case "addFact":
		_, err := loc.AddFact(ctx, in.Id, core.Map{"v": in.V, c12Kind(in.V): "1"})
		return c12Out{Err: errStr(err)}
	case "searchKind":
		// a search for a property that only some versions of a fact
		// have: overwritten facts leave entries for their old terms
		// behind in the term index, also after they are removed
		srs, err := loc.SearchFacts(ctx, core.Map{"ka": "?x"}, false)
		if err != nil {
			return c12Out{Err: errStr(err)}
		}
		var rows []string
		for _, sr := range srs.Found {
			rows = append(rows, sr.Id)
		}
		sort.Strings(rows)
		return c12Out{Res: strings.Join(rows, ",")}
	case "remFact":
		_, err := loc.RemFact(ctx, in.Id)
		return c12Out{Err: errStr(err)}
	case "getFact":
		f, err := loc.GetFact(ctx, in.Id)
		if err != nil {
			return c12Out{Err: errStr(err)}
		}
		return c12Out{Res: fmt.Sprint(f["v"])}
	case "search":
		srs, err := loc.SearchFacts(ctx, core.Map{"v": "?v"}, false)
		if err != nil {
			return c12Out{Err: errStr(err)}
		}
		var rows []string
		for _, sr := range srs.Found {
			if len(sr.Bindingss) > 0 {
				rows = append(rows, sr.Id+"="+fmt.Sprint(sr.Bindingss[0]["?v"]))
			}
		}
		sort.Strings(rows)
		return c12Out{Res: strings.Join(rows, ",")}
	case "addRule":
		rule := mkRule(M{"go": "1"}, in.V)
		if in.Mut {
			// two actions (they run in parallel), each writing into
			// the object bound from the event
			code := "for (var i = 0; i < 40; i++) { o['k' + i] = i; } o.n = 2; '" + in.V + "'"
			rule = M{"when": M{"pattern": M{"go": "1", "obj": "?o"}}, "actions": A{M{"code": code}, M{"code": code}}}
		} else if in.Env {
			// (the script keeps writing to what it has handed over: the
			// fact is what it was when it was added)
			rule["when"] = M{"pattern": M{"go": "1", "obj": "?o"}}
			rule["action"] = M{"code": "Env.AddFact('made_' + ruleId, {made: '" + in.V + "', obj: o}); o.n = 5; o.later = true; '" + in.V + "'"}
		}
		_, err := loc.AddRule(ctx, in.Id, core.Map(rule))
		return c12Out{Err: errStr(err)}
	case "remRule":
		_, err := loc.RemRule(ctx, in.Id)
		return c12Out{Err: errStr(err)}
	case "disable":
		return c12Out{Err: errStr(loc.EnableRule(ctx, in.Id, false))}
	case "enable":
		return c12Out{Err: errStr(loc.EnableRule(ctx, in.Id, true))}
	case "isEnabled":
		b, err := loc.RuleEnabled(ctx, in.Id)
		if err != nil {
			return c12Out{Err: errStr(err)}
		}
		return c12Out{Res: fmt.Sprint(b)}
	case "getRule":
		r, err := loc.GetRule(ctx, in.Id)
		if err != nil {
			return c12Out{Err: errStr(err)}
		}
		code := ""
		if a, ok := r["action"].(map[string]interface{}); ok {
			code, _ = a["code"].(string)
		} else if as, ok := r["actions"].([]interface{}); ok && len(as) > 0 {
			if a, ok := as[0].(map[string]interface{}); ok {
				code, _ = a["code"].(string)
			}
		}
		// the tag is the last quoted string of the action
		code = strings.TrimSuffix(code, "'")
		return c12Out{Res: code[strings.LastIndex(code, "'")+1:]}
	case "event":
		work, cond := loc.ProcessEvent(ctx, core.Map{"go": "1", "obj": map[string]interface{}{"n": 1.0}})
		if cond != nil {
			return c12Out{Err: cond.Msg}
		}
		// the service answers an event with the work as JSON
		if _, err := json.Marshal(work); err != nil {
			return c12Out{Err: "cannot marshal the work: " + err.Error()}
		}
		var vals []string
		seen := map[string]bool{}
		for _, v := range work.Values {
			sv := fmt.Sprint(v)
			if in.Mut && seen[sv] {
				continue // (two actions per rule, one tag)
			}
			seen[sv] = true
			vals = append(vals, sv)
		}
		sort.Strings(vals)
		return c12Out{Res: strings.Join(vals, ",")}
	}
	return c12Out{Err: "unknown op"}
}

func runC12(c c12Case) *vlib.Outcome {
	o := &vlib.Outcome{}
	if (c.Kind != "indexed" && c.Kind != "linear") || len(c.Clients) < 1 || len(c.Spin) < len(c.Clients) {
		o.Discard = true
		return o
	}
	n := c.Repeat
	if n < 1 {
		n = 1
	}
	for i := 0; i < n && !o.Failed(); i++ {
		runC12Once(c, o)
	}
	return o
}

func runC12Once(c c12Case, o *vlib.Outcome) *vlib.Outcome {
	var store core.Storage
	if c.StoreDelayUs > 0 && c.StoreDelayUs <= 10000 {
		mem, _ := core.NewMemStorage(newCtx())
		store = &c12SlowStore{mem, time.Duration(c.StoreDelayUs) * time.Microsecond}
	}
	w := newWorld(c.Kind, store, o)
	if c.Hooks {
		w.withCronHooks()
	}
	var noise *schedNoise
	if c.Noise > 0 {
		var stop func()
		noise, stop = startNoise(c.Noise)
		defer stop()
		w.ctrl.NoTiming = false
		o.Label("schedule-noise")
	}
	loc, err := w.open("L")
	if err != nil {
		o.Fail("OPEN", "%v", err)
		return o
	}
	var mu sync.Mutex
	var history []porcupine.Operation
	t0 := time.Now()
	var wg sync.WaitGroup
	start := make(chan struct{})
	for ci, ops := range c.Clients {
		wg.Add(1)
		go func(ci int, ops []c12Op) {
			defer wg.Done()
			<-start
			x := 0
			for j := 0; j < c.Spin[ci]; j++ {
				x += j
			}
			_ = x
			for j, op := range ops {
				in := c12In{K: op.K, Id: op.Id, V: fmt.Sprintf("c%d.%d", ci, j), Hooks: c.Hooks, Env: c.EnvActions && op.K == "addRule", Mut: c.Mut}
				call := time.Since(t0).Nanoseconds()
				out := c12ExecNoisy(loc, in, noise)
				ret := time.Since(t0).Nanoseconds()
				mu.Lock()
				history = append(history, porcupine.Operation{ClientId: ci, Input: in, Call: call, Output: out, Return: ret})
				mu.Unlock()
			}
		}(ci, ops)
	}
	close(start)
	done := make(chan struct{})
	go func() { wg.Wait(); close(done) }()
	select {
	case <-done:
	case <-time.After(30 * time.Second):
		o.Fail("DEADLOCK", "the clients did not finish within 30s; case %s", vlib.JSON(c))
		return o
	}
	// unexpected errors (every operation of this workload must succeed,
	// except getFact of an absent id)
	overlapSameId := false
	for i, a := range history {
		out := a.Output.(c12Out)
		in := a.Input.(c12In)
		if out.Err != "" && !((in.K == "getFact" || in.K == "getRule" || (c.Hooks && (in.K == "remFact" || in.K == "remRule" || in.K == "enable"))) && out.Err == "notfound") {
			o.Fail("OPERATION_FAILED", "client %d: %+v failed under concurrency: %s", a.ClientId, in, out.Err)
			return o
		}
		for _, b := range history[i+1:] {
			ib := b.Input.(c12In)
			if a.ClientId != b.ClientId && in.Id != "" && in.Id == ib.Id && a.Call <= b.Return && b.Call <= a.Return &&
				(in.K == "addFact" || in.K == "remFact" || in.K == "addRule" || in.K == "remRule") &&
				(ib.K == "addFact" || ib.K == "remFact" || ib.K == "addRule" || ib.K == "remRule") {
				overlapSameId = true
			}
		}
	}
	if overlapSameId {
		o.NonTrivial = true
	}
	// final reads are part of the history
	end := time.Since(t0).Nanoseconds() + 1
	for i, id := range c12FactIds {
		in := c12In{K: "getFact", Id: id}
		out := c12Exec(loc, in)
		history = append(history, porcupine.Operation{ClientId: len(c.Clients), Input: in, Call: end + int64(2*i), Output: out, Return: end + int64(2*i) + 1})
	}
	in := c12In{K: "event", Mut: c.Mut}
	history = append(history, porcupine.Operation{ClientId: len(c.Clients), Input: in, Call: end + 10, Output: c12Exec(loc, in), Return: end + 11})

	res, info := porcupine.CheckOperationsVerbose(c12Model, history, 20*time.Second)
	_ = info
	if res == porcupine.Illegal {
		// Event processing is not atomic (known finding): is the history
		// explained once the events' results are left unconstrained?
		for i := range history {
			in := history[i].Input.(c12In)
			if in.K != "event" {
				continue
			}
			for _, b := range history {
				ib := b.Input.(c12In)
				if b.ClientId != history[i].ClientId && (ib.K == "addRule" || ib.K == "remRule" || ib.K == "enable" || ib.K == "disable") &&
					history[i].Call <= b.Return && b.Call <= history[i].Return {
					in.Free = true
				}
			}
			history[i].Input = in
		}
		if r2 := porcupine.CheckOperations(c12ModelFreeEvents, history); r2 && vlib.KnownActive("event-dispatch-not-atomic") {
			o.Known = append(o.Known, "event-dispatch-not-atomic")
			return o
		}
		var rows []string
		sort.Slice(history, func(i, j int) bool { return history[i].Call < history[j].Call })
		for _, h := range history {
			rows = append(rows, fmt.Sprintf("[c%d %d..%d] %+v -> %+v", h.ClientId, h.Call/1000, h.Return/1000, h.Input, h.Output))
		}
		o.Fail("NOT_LINEARIZABLE", "[%s] no sequential order of the requests that respects real time explains the results:\n%s", c.Kind, strings.Join(rows, "\n"))
		return o
	}
	if res == porcupine.Unknown {
		o.Label("porcupine-timeout")
	}
	// memory and storage agree at the end
	keys, _ := w.storageKeys("L")
	for _, id := range append(append([]string{"made_r1", "made_r2"}, c12FactIds...), c12RuleIds...) {
		f, err := loc.GetFact(newCtx(), id)
		js, stored := keys[id]
		if (err == nil) != stored {
			o.Fail("MEMORY_STORAGE_DIVERGE", "[%s] after the workload id %q is in memory: %v, in storage: %v (%s); case %s", c.Kind, id, err == nil, stored, js, vlib.JSON(c))
			return o
		}
		if err == nil {
			var sm M
			json.Unmarshal([]byte(js), &sm)
			if fmt.Sprint(sm["v"]) != fmt.Sprint(f["v"]) || fmt.Sprint(sm["made"]) != fmt.Sprint(f["made"]) {
				o.Fail("MEMORY_STORAGE_DIVERGE", "[%s] after the workload id %q has v=%v in memory but v=%v in storage", c.Kind, id, f["v"], sm["v"])
				return o
			}
			// the whole content (what a script did to its object after
			// it had added it as a fact is not part of the fact)
			if !refmatch.Equal(refmatch.Canon(map[string]interface{}(f)), refmatch.Canon(map[string]interface{}(sm)), true) {
				o.Fail("MEMORY_STORAGE_DIVERGE", "[%s] after the workload id %q is %s in memory but %s in storage", c.Kind, id, vlib.JSON(map[string]interface{}(f)), js)
				return o
			}
		}
	}
	return o
}

func TestC12(t *testing.T) {
	vlib.Check(t, "C12", genC12, runC12)
}
