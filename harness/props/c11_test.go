package props

// C11 — concurrent requests to different locations do not interfere.
//
// N client goroutines each own one location of ONE fresh engine and issue a
// generated request sequence; all clients are released together so that the
// very first requests of the engine race.  Every client's result sequence
// must equal that of the same sequence run alone on a fresh engine, each
// location's final records must be in the shared storage, and the process
// must not crash, deadlock or (race build) report a data race.  Drivers:
// sys.System and HTTPService.ServeHTTP.

import (
	"encoding/json"
	"fmt"
	"io"
	"net/http"
	"net/http/httptest"
	"net/url"
	"sort"
	"strings"
	"sync"
	"sync/atomic"
	"testing"
	"time"

	"github.com/Comcast/rulio/core"
	"github.com/Comcast/rulio/service"
	"github.com/Comcast/rulio/sys"
	"pgregory.net/rapid"

	"verif/harness/vlib"
)

type c11Case struct {
	Linear  bool      `json:"linear"`
	HTTP    bool      `json:"http"`
	Clients [][]c12Op `json:"clients"`
	Spin    []int     `json:"spin"`
	// Check turns existence checking on: every client creates its location
	// first, except the ghosts, whose location is never created (all their
	// requests must fail, and must not disturb anybody).
	Check bool   `json:"check,omitempty"`
	Ghost []bool `json:"ghost,omitempty"`
	// TTL of cached locations: 0 forever, 1 never cached, 2 one millisecond.
	TTL int `json:"ttl,omitempty"`
	// Noise > 0: schedule noise during the concurrent run (see noise_test.go).
	Noise int `json:"noise,omitempty"`
}

func genC11(t *rapid.T) c11Case {
	var c c11Case
	c.Linear = rapid.Bool().Draw(t, "linear")
	c.HTTP = rapid.IntRange(0, 2).Draw(t, "http") == 0
	c.Check = rapid.IntRange(0, 2).Draw(t, "check") == 0
	c.TTL = rapid.SampledFrom([]int{0, 0, 1, 2}).Draw(t, "ttl")
	if rapid.Bool().Draw(t, "noise?") {
		c.Noise = rapid.IntRange(1, 1000).Draw(t, "noise")
	}
	nc := rapid.IntRange(2, 8).Draw(t, "nclients")
	for i := 0; i < nc; i++ {
		n := rapid.IntRange(2, 9).Draw(t, fmt.Sprintf("c%d.n", i))
		var ops []c12Op
		ghost := c.Check && rapid.IntRange(0, 3).Draw(t, fmt.Sprintf("c%d.ghost", i)) == 0
		c.Ghost = append(c.Ghost, ghost)
		if c.Check && !ghost {
			ops = append(ops, c12Op{K: "create"})
		}
		for j := 0; j < n; j++ {
			l := fmt.Sprintf("c%d.o%d", i, j)
			k := rapid.SampledFrom([]string{"addFact", "addFact", "addFact", "remFact", "getFact", "search", "addRule", "addLibRule", "remRule", "disable", "enable", "event", "event"}).Draw(t, l+".k")
			x := c12Op{K: k}
			switch k {
			case "addFact", "remFact", "getFact":
				x.Id = rapid.SampledFrom(c12FactIds).Draw(t, l+".id")
			case "addRule", "addLibRule", "remRule", "disable", "enable":
				x.Id = rapid.SampledFrom(c12RuleIds).Draw(t, l+".id")
			}
			ops = append(ops, x)
		}
		c.Clients = append(c.Clients, ops)
		c.Spin = append(c.Spin, rapid.SampledFrom([]int{0, 0, 0, 100, 1000, 10000}).Draw(t, fmt.Sprintf("c%d.spin", i)))
	}
	return c
}

type c11Engine struct {
	s  *sys.System
	hs *service.HTTPService
}

func newC11Engine(linear, check bool, ttl int) (*c11Engine, error) {
	// "the very first requests after start-up": forget what the process
	// has learned on first use so far (timer names)
	core.ClearTimerHistories()
	conf := sys.ExampleConfig()
	conf.UnindexedState = linear
	conf.CheckExistence = check
	cont := sys.ExampleSystemControl()
	cont.Timing = false
	cont.LocationTTL = sys.Forever
	switch ttl {
	case 1:
		cont.LocationTTL = sys.Never
	case 2:
		cont.LocationTTL = time.Millisecond
	}
	cont.DefaultLocControl = quietControl()
	cont.DefaultLocControl.Libraries = map[string]string{}
	for i := 0; i < 16; i++ {
		cont.DefaultLocControl.Libraries[fmt.Sprintf("lib%d", i)] = fmt.Sprintf("function libtag() { return 'c%d.lib'; }", i)
	}
	s, err := sys.NewSystem(newCtx(), *conf, *cont, nullCron{})
	if err != nil {
		return nil, err
	}
	hs, err := service.NewHTTPService(newCtx(), &service.Service{System: s})
	return &c11Engine{s, hs}, err
}

// c11Rule is the rule an addRule / addLibRule request writes.  The library
// variant has the same action text in every location ("libtag()") and gets
// a client-specific tag from the library "lib<client>" of the location
// control (Control.Libraries maps the name to explicit code).
func c11Rule(x c12Op, v string) M {
	rule := mkRule(M{"go": "1"}, v)
	if x.K == "addLibRule" {
		client := strings.SplitN(strings.TrimPrefix(v, "c"), ".", 2)[0]
		rule["action"] = M{"code": "libtag()", "opts": M{"libraries": A{"lib" + client}}}
	}
	return rule
}

// do performs one request for a location and renders the result.
func (e *c11Engine) do(http bool, loc string, x c12Op, v string) string {
	if x.K == "create" {
		created, err := e.s.CreateLocation(newCtx(), loc)
		if err != nil {
			return "error: " + err.Error()
		}
		return fmt.Sprint(created)
	}
	if http {
		return e.doHTTP(loc, x, v)
	}
	ctx := newCtx()
	res := func(s string, err error) string {
		if err != nil {
			if _, nf := err.(*core.NotFoundError); nf {
				return "notfound"
			}
			return "error: " + err.Error()
		}
		return s
	}
	switch x.K {
	case "addFact":
		_, err := e.s.AddFact(ctx, loc, x.Id, fmt.Sprintf(`{"v":%q}`, v))
		return res("ok", err)
	case "remFact":
		_, err := e.s.RemFact(ctx, loc, x.Id)
		if err != nil {
			return "rem-error" // (with hooks an absent id reports not-found)
		}
		return "ok"
	case "getFact":
		js, err := e.s.GetFact(ctx, loc, x.Id)
		if err != nil {
			return res("", err)
		}
		var m M
		json.Unmarshal([]byte(js), &m)
		return fmt.Sprint(m["v"])
	case "search":
		srs, err := e.s.SearchFacts(ctx, loc, `{"v":"?v"}`, false)
		if err != nil {
			return res("", err)
		}
		var rows []string
		for _, sr := range srs.Found {
			rows = append(rows, sr.Id+"="+fmt.Sprint(sr.Bindingss[0]["?v"]))
		}
		sort.Strings(rows)
		return strings.Join(rows, ",")
	case "addRule", "addLibRule":
		bs, _ := json.Marshal(c11Rule(x, v))
		_, err := e.s.AddRule(ctx, loc, x.Id, string(bs))
		return res("ok", err)
	case "remRule":
		_, err := e.s.RemRule(ctx, loc, x.Id)
		if err != nil {
			return "rem-error"
		}
		return "ok"
	case "disable", "enable":
		err := e.s.EnableRule(ctx, loc, x.Id, x.K == "enable")
		if err != nil {
			return "enable-error"
		}
		return "ok"
	case "event":
		work, err := e.s.ProcessEvent(ctx, loc, `{"go":"1"}`)
		if err != nil {
			return res("", err)
		}
		var vals []string
		for _, v := range work.Values {
			vals = append(vals, fmt.Sprint(v))
		}
		sort.Strings(vals)
		return strings.Join(vals, ",")
	}
	return "?"
}

func (e *c11Engine) doHTTP(loc string, x c12Op, v string) string {
	q := url.Values{"location": {loc}}
	var uri string
	switch x.K {
	case "addFact":
		uri = "/api/loc/facts/add"
		q.Set("id", x.Id)
		q.Set("fact", fmt.Sprintf(`{"v":%q}`, v))
	case "remFact":
		uri = "/api/loc/facts/rem"
		q.Set("id", x.Id)
	case "getFact":
		uri = "/api/loc/facts/get"
		q.Set("id", x.Id)
	case "search":
		uri = "/api/loc/facts/search"
		q.Set("pattern", `{"v":"?v"}`)
	case "addRule", "addLibRule":
		uri = "/api/loc/rules/add"
		q.Set("id", x.Id)
		bs, _ := json.Marshal(c11Rule(x, v))
		q.Set("rule", string(bs))
	case "remRule":
		uri = "/api/loc/rules/rem"
		q.Set("id", x.Id)
	case "disable":
		uri = "/api/loc/rules/disable"
		q.Set("id", x.Id)
	case "enable":
		uri = "/api/loc/rules/enable"
		q.Set("id", x.Id)
	case "event":
		uri = "/api/loc/events/ingest"
		q.Set("event", `{"go":"1"}`)
	}
	rec := httptest.NewRecorder()
	e.hs.ServeHTTP(rec, httptest.NewRequest("GET", uri+"?"+q.Encode(), nil))
	if rec.Code != 200 {
		return fmt.Sprintf("http %d", rec.Code)
	}
	var m map[string]interface{}
	if err := json.Unmarshal(rec.Body.Bytes(), &m); err != nil {
		return "bad json: " + rec.Body.String()
	}
	switch x.K {
	case "getFact":
		f, _ := m["fact"].(map[string]interface{})
		return fmt.Sprint(f["v"])
	case "search":
		found, _ := m["Found"].([]interface{})
		var rows []string
		for _, fx := range found {
			fm, _ := fx.(map[string]interface{})
			bl, _ := fm["Bindingss"].([]interface{})
			v := ""
			if len(bl) > 0 {
				bm, _ := bl[0].(map[string]interface{})
				v = fmt.Sprint(bm["?v"])
			}
			rows = append(rows, fmt.Sprint(fm["Id"])+"="+v)
		}
		sort.Strings(rows)
		return strings.Join(rows, ",")
	case "event":
		r, _ := m["result"].(map[string]interface{})
		vl, _ := r["values"].([]interface{})
		var vals []string
		for _, v := range vl {
			vals = append(vals, fmt.Sprint(v))
		}
		sort.Strings(vals)
		return strings.Join(vals, ",")
	}
	return "ok"
}

func runC11(c c11Case) *vlib.Outcome {
	o := &vlib.Outcome{}
	if len(c.Clients) < 1 || len(c.Spin) < len(c.Clients) {
		o.Discard = true
		return o
	}
	// sequential oracle: each client alone on a fresh engine
	want := make([][]string, len(c.Clients))
	wantStore := make([]map[string]string, len(c.Clients))
	writes := 0
	for ci, ops := range c.Clients {
		e, err := newC11Engine(c.Linear, c.Check, c.TTL)
		if err != nil {
			o.Fail("ENGINE", "%v", err)
			return o
		}
		loc := fmt.Sprintf("loc%d", ci)
		for j, x := range ops {
			want[ci] = append(want[ci], e.do(c.HTTP, loc, x, fmt.Sprintf("c%d.%d", ci, j)))
			if x.K == "addFact" || x.K == "addRule" || x.K == "addLibRule" {
				writes++
			}
			// Whatever an event or search of this client returns was
			// written by this client (its tags start with "c<ci>."): also
			// in the solo run, which shares the process - and whatever the
			// process keeps globally - with everything that ran before.
			if x.K == "event" || x.K == "search" {
				if strings.Contains(want[ci][j], ".lib") {
					o.Label("library-rule-ran")
				}
				if bad := c11ForeignTag(want[ci][j], ci); bad != "" {
					o.Fail("INTERFERENCE", "client %d alone on a fresh engine (location %s, http=%v, linear=%v): request %d %+v returned %q, which carries %q - not something this client wrote",
						ci, loc, c.HTTP, c.Linear, j, x, want[ci][j], bad)
					return o
				}
			}
		}
		wantStore[ci] = c11Store(e, loc)
	}
	if len(c.Clients) >= 3 && writes >= 3 {
		n5 := 0
		for _, ops := range c.Clients {
			if len(ops) >= 5 {
				n5++
			}
		}
		if n5 >= 3 {
			o.NonTrivial = true
		}
		for _, g := range c.Ghost {
			if g {
				o.Label("ghost-client")
				break
			}
		}
		o.Label(fmt.Sprintf("ttl-%d", c.TTL))
	}
	// concurrent run on one engine
	e, err := newC11Engine(c.Linear, c.Check, c.TTL)
	if err != nil {
		o.Fail("ENGINE", "%v", err)
		return o
	}
	if c.Noise > 0 {
		_, end := startNoise(c.Noise)
		defer end()
	}
	got := make([][]string, len(c.Clients))
	var wg sync.WaitGroup
	start := make(chan struct{})
	for ci, ops := range c.Clients {
		wg.Add(1)
		go func(ci int, ops []c12Op) {
			defer wg.Done()
			<-start
			x := 0
			for j := 0; j < c.Spin[ci]; j++ {
				x += j
			}
			_ = x
			loc := fmt.Sprintf("loc%d", ci)
			for j, op := range ops {
				got[ci] = append(got[ci], e.do(c.HTTP, loc, op, fmt.Sprintf("c%d.%d", ci, j)))
			}
		}(ci, ops)
	}
	close(start)
	done := make(chan struct{})
	go func() { wg.Wait(); close(done) }()
	select {
	case <-done:
	case <-time.After(30 * time.Second):
		o.Fail("DEADLOCK", "the clients did not finish within 30s; case %s", vlib.JSON(c))
		return o
	}
	for ci := range c.Clients {
		for j := range want[ci] {
			if j >= len(got[ci]) || got[ci][j] != want[ci][j] {
				g := "<missing>"
				if j < len(got[ci]) {
					g = got[ci][j]
				}
				o.Fail("INTERFERENCE", "client %d (location loc%d, http=%v, linear=%v) request %d %+v returned %q while %d other locations were busy; alone it returns %q",
					ci, ci, c.HTTP, c.Linear, j, c.Clients[ci][j], g, len(c.Clients)-1, want[ci][j])
				return o
			}
		}
		if st := c11Store(e, fmt.Sprintf("loc%d", ci)); vlib.JSON(st) != vlib.JSON(wantStore[ci]) {
			o.Fail("STORAGE_DIFFERS", "location loc%d: storage after the concurrent run holds %s; after the solo run %s", ci, vlib.JSON(st), vlib.JSON(wantStore[ci]))
			return o
		}
	}
	return o
}

// c11ForeignTag returns a tag in an event / search result that was not
// written by client ci ("" if there is none).
func c11ForeignTag(res string, ci int) string {
	if res == "" || strings.HasPrefix(res, "http ") || strings.HasPrefix(res, "error") || res == "notfound" {
		return ""
	}
	own := fmt.Sprintf("c%d.", ci)
	for _, part := range strings.Split(res, ",") {
		v := part
		if i := strings.Index(part, "="); i >= 0 {
			v = part[i+1:]
		}
		if v != "" && !strings.HasPrefix(v, own) {
			return v
		}
	}
	return ""
}

// c11Store returns the stored records of a location (ids -> v / "rule").
func c11Store(e *c11Engine, loc string) map[string]string {
	acc := map[string]string{}
	st, err := e.s.PeekStorage(newCtx())
	if err != nil || st == nil {
		return acc
	}
	pairs, err := st.Load(newCtx(), loc)
	if err != nil {
		return acc
	}
	for _, p := range pairs {
		var m M
		json.Unmarshal(p.V, &m)
		if _, isRule := m["rule"]; isRule {
			acc[string(p.K)] = "rule"
		} else if v, have := m["v"]; have {
			acc[string(p.K)] = fmt.Sprint(v)
		} else {
			acc[string(p.K)] = "prop"
		}
	}
	return acc
}

func TestC11(t *testing.T) {
	vlib.Check(t, "C11", genC11, runC11)
}

// ---------------------------------------------------------------------
// the HTTP service behind its own listener
//
// service.Listener (what `rulesys -max-pending` puts in front of the
// service) refuses connections while too many requests are pending.  Clients
// of different locations send requests over loopback connections, some of
// them slow; whatever the limit, the process must survive, a request is
// answered properly or (only with a limit) turned away, and afterwards every
// location is served again.

type c11lCase struct {
	MaxPending int     `json:"maxPending"` // 0 = no limit
	Clients    [][]int `json:"clients"`    // per client (= location): ms each request's script sleeps
	Spin       []int   `json:"spin"`
}

func genC11l(t *rapid.T) c11lCase {
	var c c11lCase
	c.MaxPending = rapid.SampledFrom([]int{0, 1, 1, 2, 3}).Draw(t, "maxPending")
	n := rapid.IntRange(2, 6).Draw(t, "clients")
	for i := 0; i < n; i++ {
		m := rapid.IntRange(1, 4).Draw(t, fmt.Sprintf("c%d.n", i))
		var reqs []int
		for j := 0; j < m; j++ {
			reqs = append(reqs, rapid.SampledFrom([]int{0, 0, 5, 20}).Draw(t, fmt.Sprintf("c%d.r%d", i, j)))
		}
		c.Clients = append(c.Clients, reqs)
		c.Spin = append(c.Spin, rapid.SampledFrom([]int{0, 0, 100, 10000}).Draw(t, fmt.Sprintf("spin%d", i)))
	}
	return c
}

func runC11l(c c11lCase) *vlib.Outcome {
	o := &vlib.Outcome{}
	if c.MaxPending < 0 || c.MaxPending > 64 || len(c.Clients) < 1 || len(c.Clients) > 16 || len(c.Spin) < len(c.Clients) {
		o.Discard = true
		return o
	}
	e, err := newC11Engine(false, false, 0)
	if err != nil {
		o.Fail("NEWSYSTEM", "%v", err)
		return o
	}
	l, err := service.NewListener(newCtx(), e.hs, "127.0.0.1:0", false)
	if err != nil {
		o.Fail("LISTEN", "%v", err)
		return o
	}
	e.hs.SetMaxPending(int32(c.MaxPending))
	srv := &http.Server{Handler: e.hs}
	served := make(chan error, 1)
	go func() { served <- srv.Serve(l) }()
	defer func() {
		srv.Close()
		select {
		case <-served:
		case <-time.After(5 * time.Second):
		}
	}()
	base := "http://" + l.Addr().String()
	client := &http.Client{Timeout: 20 * time.Second, Transport: &http.Transport{DisableKeepAlives: true}}
	get := func(loc string, sleepMs int, tag string) (string, error) {
		code := fmt.Sprintf("Env.sleep(%d); '%s'", sleepMs*1000000, tag)
		q := url.Values{}
		q.Set("location", loc)
		q.Set("code", code)
		resp, err := client.Get(base + "/api/loc/util/js?" + q.Encode())
		if err != nil {
			return "", err
		}
		defer resp.Body.Close()
		body, _ := io.ReadAll(resp.Body)
		if resp.StatusCode != 200 {
			return "", fmt.Errorf("http %d %s", resp.StatusCode, strings.TrimSpace(string(body)))
		}
		return string(body), nil
	}
	var wg sync.WaitGroup
	start := make(chan struct{})
	problems := make([]string, len(c.Clients))
	var turnedAway int32
	for i := range c.Clients {
		wg.Add(1)
		go func(i int) {
			defer wg.Done()
			<-start
			x := 0
			for j := 0; j < c.Spin[i]; j++ {
				x += j
			}
			_ = x
			for j, ms := range c.Clients[i] {
				tag := fmt.Sprintf("c%d.%d", i, j)
				body, err := get(fmt.Sprintf("loc%d", i), ms, tag)
				if err != nil {
					if c.MaxPending > 0 {
						// turned away (429, or the connection was cut)
						atomic.AddInt32(&turnedAway, 1)
						continue
					}
					problems[i] = fmt.Sprintf("request %d failed although there is no limit on pending requests: %v", j, err)
					return
				}
				if !strings.Contains(body, tag) {
					problems[i] = fmt.Sprintf("request %d was answered with %q, expected the value %q", j, body, tag)
					return
				}
			}
		}(i)
	}
	close(start)
	wg.Wait()
	select {
	case err := <-served:
		o.Fail("SERVER_STOPPED", "maxPending %d, clients %v: the HTTP server stopped serving: %v", c.MaxPending, c.Clients, err)
		return o
	default:
	}
	for i, p := range problems {
		if p != "" {
			o.Fail("REQUEST_NOT_SERVED", "maxPending %d, clients %v: client %d (location loc%d): %s", c.MaxPending, c.Clients, i, i, p)
			return o
		}
	}
	// afterwards, one at a time: every location is served
	for i := range c.Clients {
		var body string
		var err error
		for attempt := 0; attempt < 20; attempt++ {
			if body, err = get(fmt.Sprintf("loc%d", i), 0, "after"); err == nil {
				break
			}
			time.Sleep(20 * time.Millisecond)
		}
		if err != nil || !strings.Contains(body, "after") {
			o.Fail("REQUEST_NOT_SERVED", "maxPending %d, clients %v: after the burst, location loc%d is not served: %q %v", c.MaxPending, c.Clients, i, body, err)
			return o
		}
	}
	if c.MaxPending > 0 && turnedAway > 0 {
		o.NonTrivial = true
		o.Label("turned-away")
	}
	if c.MaxPending == 0 {
		o.NonTrivial = true
	}
	return o
}

func TestC11Listener(t *testing.T) {
	vlib.Check(t, "C11", genC11l, runC11l)
}
