package props

// faultStore wraps a core.Storage: it numbers every call, can make one call
// fail, and can "crash" the process at a chosen write (panic with a sentinel
// before the write is performed; every later write is dropped -- exactly
// what a process death between two storage writes leaves behind).

import (
	"errors"
	"fmt"
	"sync"

	"github.com/Comcast/rulio/core"
)

type crashSentinel struct{ at int }

var errInjected = errors.New("injected storage failure")

type faultStore struct {
	sync.Mutex
	inner   core.Storage
	calls   int // all calls (Load, Add, Remove, Clear, Delete)
	writes  int // Add, Remove, Clear, Delete
	failAt  int // call number that fails (0 = none)
	crashAt int // write number at which the process dies (0 = none)
	dead    bool
	fired   bool // the injected failure was delivered
	log     []string
	loads   map[string]int
}

func newFaultStore(inner core.Storage) *faultStore {
	return &faultStore{inner: inner, loads: map[string]int{}}
}

func (s *faultStore) enter(kind string, write bool, detail string) error {
	s.Lock()
	defer s.Unlock()
	s.calls++
	if write {
		s.writes++
	}
	s.log = append(s.log, fmt.Sprintf("%d:%s %s", s.calls, kind, detail))
	if s.dead {
		if write {
			return errDropped
		}
		return nil
	}
	if write && s.crashAt != 0 && s.writes == s.crashAt {
		s.dead = true
		panic(crashSentinel{s.writes})
	}
	if s.failAt != 0 && s.calls == s.failAt {
		s.fired = true
		return errInjected
	}
	return nil
}

var errDropped = errors.New("process is dead: write dropped")

func (s *faultStore) Load(ctx *core.Context, loc string) ([]core.Pair, error) {
	if err := s.enter("Load", false, loc); err != nil {
		return nil, err
	}
	s.Lock()
	s.loads[loc]++
	s.Unlock()
	return s.inner.Load(ctx, loc)
}

func (s *faultStore) Add(ctx *core.Context, loc string, data *core.Pair) error {
	if err := s.enter("Add", true, loc+"/"+string(data.K)); err != nil {
		return err
	}
	return s.inner.Add(ctx, loc, data)
}

func (s *faultStore) Remove(ctx *core.Context, loc string, k []byte) (int64, error) {
	if err := s.enter("Remove", true, loc+"/"+string(k)); err != nil {
		return 0, err
	}
	return s.inner.Remove(ctx, loc, k)
}

func (s *faultStore) Clear(ctx *core.Context, loc string) (int64, error) {
	if err := s.enter("Clear", true, loc); err != nil {
		return 0, err
	}
	return s.inner.Clear(ctx, loc)
}

func (s *faultStore) Delete(ctx *core.Context, loc string) error {
	if err := s.enter("Delete", true, loc); err != nil {
		return err
	}
	return s.inner.Delete(ctx, loc)
}

func (s *faultStore) GetStats(ctx *core.Context, loc string) (core.StorageStats, error) {
	return s.inner.GetStats(ctx, loc)
}

func (s *faultStore) Close(ctx *core.Context) error  { return s.inner.Close(ctx) }
func (s *faultStore) Health(ctx *core.Context) error { return s.inner.Health(ctx) }
