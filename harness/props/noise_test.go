package props

// Schedule noise for the concurrency checks.
//
// Two sources of yield points, both inside rulio:
//   - Context.PointHook (public API): called whenever a timed section ends,
//     i.e. at the end of every state and location operation, after its locks
//     are released (needs the location's timers switched on);
//   - core.VerifYield (build tag "verif", see MANIFEST.hooks): called just
//     before the states and the location cache take a lock and just after
//     they release it.
// At a yield point the noise does nothing, yields the processor or sleeps for
// 30-250 us, chosen pseudo-randomly from the case's noise seed and a counter.
// (The resulting schedule is still not owned by the harness: a noisy case is
// a sample, as a quiet one is.)

import (
	"runtime"
	"strings"
	"sync/atomic"
	"time"

	"github.com/Comcast/rulio/core"
)

type schedNoise struct {
	seed uint64
	n    uint64
}

var currentNoise atomic.Value // of *schedNoise (nil pointer = none)

func init() {
	currentNoise.Store((*schedNoise)(nil))
	installYield(func(point string) {
		if z := currentNoise.Load().(*schedNoise); z != nil {
			z.yield(point)
		}
	})
}

// startNoise makes z the process's current noise; the returned function
// ends it.
func startNoise(seed int) (*schedNoise, func()) {
	z := &schedNoise{seed: uint64(seed)}
	currentNoise.Store(z)
	return z, func() { currentNoise.Store((*schedNoise)(nil)) }
}

// hook is a core.PointHook.
func (z *schedNoise) hook(ctx *core.Context, namespace string, metric string, val interface{}, unit string, more ...string) {
	if !strings.HasPrefix(metric, "Count") {
		return // (two points per timer: act on one)
	}
	k := atomic.AddUint64(&z.n, 1)
	switch (k*2654435761 + z.seed*40503) % 8 {
	case 4, 5:
		runtime.Gosched()
	case 6:
		time.Sleep(40 * time.Microsecond)
	case 7:
		time.Sleep(250 * time.Microsecond)
	}
}

// yield is called at lock boundaries (far more often than hook).  The noise
// seed also selects one of three intensities.
func (z *schedNoise) yield(point string) {
	k := atomic.AddUint64(&z.n, 1)
	r := (k*2654435761 + z.seed*40503) % 64
	var gosched, short, long uint64 // thresholds
	switch z.seed % 3 {
	case 0:
		gosched, short, long = 4, 6, 7
	case 1:
		gosched, short, long = 8, 16, 20
	default:
		gosched, short, long = 4, 20, 28
	}
	switch {
	case r < gosched:
		runtime.Gosched()
	case r < short:
		time.Sleep(30 * time.Microsecond)
	case r < long:
		time.Sleep(200 * time.Microsecond)
	}
}
