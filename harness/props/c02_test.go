package props

// C02 — fact search returns exactly the stored facts that match.
//
// State machine over AddFact/RemFact/GetFact/SearchFacts/reload on a small id
// space, run on indexed and linear state; every search and get is compared
// with the reference model (brute force over the model's facts with
// refmatch).

import (
	"fmt"
	"testing"

	"pgregory.net/rapid"

	"verif/harness/gen"
	"verif/harness/vlib"
)

type op struct {
	K   string   `json:"k"`
	Loc string   `json:"loc,omitempty"`
	Id  string   `json:"id,omitempty"`
	Doc M        `json:"doc,omitempty"`
	B   bool     `json:"b,omitempty"`
	L   []string `json:"l,omitempty"`
	N   int64    `json:"n,omitempty"`
}

type c02Case struct {
	Ops []op `json:"ops"`
	// Hooks installs the cron state hooks (as sys.System does).
	Hooks bool `json:"hooks,omitempty"`
	// Typing != 0: the facts are written in Go-typed form (nested core.Map,
	// []string, []map[string]interface{}, [][]string by the bits).
	Typing int `json:"typing,omitempty"`
}

var c02Ids = []string{"", "f1", "f2", "f3", "f4", "f5"}

func genC02Fact(t *rapid.T, label string) M {
	o := gen.Opts{NoEmpty: false}
	switch rapid.IntRange(0, 9).Draw(t, label+".class") {
	case 0:
		o.Hostile, o.LongString = true, true
	case 1:
		o.NoNumbers, o.NoBools, o.NoNull = true, true, true
	}
	f := gen.Map(t, o, 2, label)
	switch rapid.IntRange(0, 19).Draw(t, label+".special") {
	case 0:
		f["x!"] = gen.Value(t, o, 1, label+".bang")
	case 1:
		f["rule"] = gen.String(t, o, label+".rule")
	case 3:
		// an object under "rule": a rule body (with or without what a
		// rule needs) - whatever is decided about it when it is added
		// has to hold for the location loaded from storage, too
		f["rule"] = rapid.SampledFrom([]interface{}{
			M{"text": "x"}, M{}, M{"when": M{"pattern": M{"a": "x"}}, "action": M{"code": "1"}}, M{"when": "x"},
		}).Draw(t, label+".rulebody")
	case 2:
		// a property fact: canonical id !<target>.<prop>
		f = M{"!p": gen.Scalar(t, o, label+".prop"), "id": rapid.SampledFrom([]string{"f1", "f2", "zz"}).Draw(t, label+".target")}
	}
	return f
}

func genC02(t *rapid.T) c02Case {
	var c c02Case
	var pool []M
	n := rapid.IntRange(1, 30).Draw(t, "nops")
	for i := 0; i < n; i++ {
		l := fmt.Sprintf("op%d", i)
		kinds := []string{"add", "add", "add", "rem", "get", "search", "search", "search", "reload"}
		switch k := rapid.SampledFrom(kinds).Draw(t, l+".kind"); k {
		case "add":
			var f M
			if len(pool) > 0 && rapid.IntRange(0, 4).Draw(t, l+".readd?") == 0 {
				f = gen.CopyMap(rapid.SampledFrom(pool).Draw(t, l+".readd"))
			} else {
				f = genC02Fact(t, l+".fact")
			}
			pool = append(pool, f)
			c.Ops = append(c.Ops, op{K: "add", Id: rapid.SampledFrom(c02Ids).Draw(t, l+".id"), Doc: f})
		case "rem":
			c.Ops = append(c.Ops, op{K: "rem", Id: rapid.SampledFrom(c02Ids[1:]).Draw(t, l+".id")})
		case "get":
			c.Ops = append(c.Ops, op{K: "get", Id: rapid.SampledFrom(c02Ids[1:]).Draw(t, l+".id")})
		case "reload":
			c.Ops = append(c.Ops, op{K: "reload"})
		case "search":
			var p M
			po := gen.PatOpts{PropVar: true, Optional: true}
			if len(pool) > 0 && rapid.IntRange(0, 5).Draw(t, l+".derived?") != 0 {
				p = gen.Derive(t, po, rapid.SampledFrom(pool).Draw(t, l+".from"), l+".pat")
			} else {
				p = gen.Pattern(t, po, 2, l+".pat")
			}
			c.Ops = append(c.Ops, op{K: "search", Doc: p})
		}
	}
	c.Hooks = rapid.IntRange(0, 2).Draw(t, "hooks") == 0
	if rapid.IntRange(0, 2).Draw(t, "typed?") == 0 {
		c.Typing = rapid.IntRange(1, 4095).Draw(t, "typing")
	}
	return c
}

func runC02(c c02Case) *vlib.Outcome {
	o := &vlib.Outcome{}
	sawOverwriteOrRem := false
	for _, kind := range []string{"indexed", "linear"} {
		w := newWorld(kind, nil, o)
		if c.Hooks {
			w.withCronHooks()
		}
		w.typing = c.Typing
		if _, err := w.open("L"); err != nil {
			o.Fail("OPEN", "cannot create location: %v", err)
			return o
		}
		ml := w.model["L"]
		mutated := false
		for i, x := range c.Ops {
			when := fmt.Sprintf("[%s] after op %d %s", kind, i, vlib.JSON(x))
			switch x.K {
			case "add":
				_, had := ml.Items[x.Id]
				r := w.addFact("L", x.Id, x.Doc)
				if r.Err != nil {
					// a refusal: nothing may have changed
					o.Label("add-refused")
				} else if had {
					sawOverwriteOrRem, mutated = true, true
				}
				w.checkGet("L", x.Id, when)
				if r.Err == nil {
					w.checkGet("L", r.Id, when)
				}
			case "rem":
				if _, had := ml.Items[x.Id]; had {
					sawOverwriteOrRem, mutated = true, true
				}
				if r := w.remFact("L", x.Id); r.Err != nil {
					o.Fail("REM_ERROR", "%s: RemFact failed: %v", when, r.Err)
				}
				w.checkGet("L", x.Id, when)
			case "get":
				w.checkGet("L", x.Id, when)
			case "reload":
				if err := w.reload("L"); err != nil {
					o.Fail("RELOAD", "%s: reload failed: %v", when, err)
					return o
				}
				o.Label("reload")
			case "search":
				sc := w.checkSearch("L", x.Doc, false, when)
				if sc.Refused {
					o.Label("search-refused")
				} else if sc.Expected > 0 {
					o.Label("search-hit")
					if mutated && sc.Expected < len(ml.Items) {
						o.NonTrivial = true
					}
				} else {
					o.Label("search-empty")
				}
			}
			if o.Failed() {
				return o
			}
		}
		for _, id := range c02Ids[1:] {
			w.checkGet("L", id, "["+kind+"] at end")
		}
		w.checkStorage("L", "["+kind+"] at end")
		if o.Failed() {
			return o
		}
	}
	if sawOverwriteOrRem {
		o.Label("overwrite-or-rem")
	}
	return o
}

func TestC02(t *testing.T) {
	vlib.Check(t, "C02", genC02, runC02)
}

func FuzzC02(f *testing.F) { vlib.Fuzz(f, "C02", genC02, runC02) }
