package props

// C15 part 2 — the real InternalCron wired into one sys.System, on the
// virtual clock: scheduled rules in several locations (sharing ids) must run
// in their own location when due, one-shots once, and never after removal.

import (
	"encoding/json"
	"fmt"
	"os"
	"path/filepath"
	"sort"
	"sync"
	"testing"
	"time"

	"github.com/Comcast/rulio/core"
	"github.com/Comcast/rulio/cron"
	"github.com/Comcast/rulio/sys"
	"github.com/robertkrimen/otto"
	"pgregory.net/rapid"

	"verif/harness/vlib"
)

type c15sCase struct {
	Linear bool `json:"linear"`
	Ops    []op `json:"ops"`
	// Reuse: the client uses one core.Context for all its requests (to
	// every location) instead of a fresh one per request.
	Reuse bool `json:"reuse,omitempty"`
	// Parent: A and B have the parent P (which has a yearly rule of its
	// own); "outage" operations switch P off for a while, so that the
	// ticks of A and B fail while they look at their parent.
	Parent bool `json:"parent,omitempty"`
}

func genC15Sys(t *rapid.T) c15sCase {
	var c c15sCase
	c.Linear = rapid.Bool().Draw(t, "linear")
	c.Reuse = rapid.Bool().Draw(t, "reuse")
	c.Parent = rapid.Bool().Draw(t, "parent")
	n := rapid.IntRange(2, 12).Draw(t, "nops")
	for i := 0; i < n; i++ {
		l := fmt.Sprintf("op%d", i)
		loc := rapid.SampledFrom([]string{"A", "B"}).Draw(t, l+".loc")
		id := rapid.SampledFrom([]string{"s1", "s2"}).Draw(t, l+".id")
		kinds := []string{"sched", "sched", "sched", "rem", "rule", "clear", "sleep", "sleep", "sleep", "restart"}
		if c.Parent {
			kinds = append(kinds, "outage", "outage")
		}
		switch rapid.SampledFrom(kinds).Draw(t, l+".kind") {
		case "outage":
			c.Ops = append(c.Ops, op{K: "outage", N: rapid.SampledFrom([]int64{1100e6, 2300e6}).Draw(t, l+".ns")})
		case "restart":
			c.Ops = append(c.Ops, op{K: "restart"})
		case "sched":
			x := op{K: "sched", Loc: loc, Id: id, N: rapid.SampledFrom([]int64{1e9, 2e9, 3500e6}).Draw(t, l+".d"), B: rapid.IntRange(0, 3).Draw(t, l+".recurring") == 0}
			if rapid.IntRange(0, 7).Draw(t, l+".past") == 0 {
				// a schedule whose only occurrences lie in the past: the
				// rule is refused, or it exists and never runs
				x.B = false
				x.Doc = M{"past": true}
			} else if rapid.IntRange(0, 4).Draw(t, l+".bounded") == 0 {
				// a cron expression with exactly one occurrence, N from
				// now (rounded up to a full second): afterwards the
				// schedule has run out, but the rule is still there
				x.B = false
				x.Doc = M{"bounded": true}
			}
			c.Ops = append(c.Ops, x)
		case "rem":
			c.Ops = append(c.Ops, op{K: "rem", Loc: loc, Id: id})
		case "rule":
			c.Ops = append(c.Ops, op{K: "rule", Loc: loc, Id: id})
		case "clear":
			if rapid.IntRange(0, 2).Draw(t, l+".really") == 0 {
				c.Ops = append(c.Ops, op{K: "clear", Loc: loc})
			}
		case "sleep":
			c.Ops = append(c.Ops, op{K: "sleep", N: rapid.SampledFrom([]int64{137e6, 537e6, 1037e6, 1537e6, 2537e6}).Draw(t, l+".ns")})
		}
	}
	return c
}

type c15sGen struct {
	loc, id, tag string
	d            time.Duration
	firstDue     time.Time
	restarted    bool
	recurring    bool
	bounded      bool // a cron expression with exactly one occurrence
	never        bool // a cron expression whose occurrences all lie in the past
	due          time.Time
	removedAt    time.Time
}

func runC15Sys(c c15sCase) *vlib.Outcome {
	o := &vlib.Outcome{}
	if !vlib.Faketime {
		o.Fail("NEEDS_FAKETIME", "this check must be built with -tags faketime")
		return o
	}
	n0 := time.Now()
	time.Sleep(n0.Truncate(10*time.Second).Add(10*time.Second).Sub(n0) + 100*time.Millisecond)

	base := "/dev/shm"
	if _, err := os.Stat(base); err != nil {
		base = os.TempDir()
	}
	dir, err := os.MkdirTemp(base, "vc15-")
	if err != nil {
		o.Fail("TMP", "%v", err)
		return o
	}
	defer os.RemoveAll(dir)
	// firings are recorded outside the locations (a Clear would wipe them)
	fired := map[string]map[string]int{"A": {}, "B": {}} // loc -> tag -> count
	lastFired := map[string]time.Time{}                  // tag -> instant of the last run
	var fmu sync.Mutex
	var cr *cron.Cron
	var s *sys.System
	boot := func() error {
		ctx := newCtx()
		cr, _ = cron.NewCron(cron.NewCronBroadcaster(), time.Second, "intcron", 100000)
		cr.Start(ctx)
		time.Sleep(time.Millisecond)
		cr.Resume(ctx)
		conf := sys.ExampleConfig()
		conf.Storage = "bolt"
		conf.StorageConfig = filepath.Join(dir, "state.db")
		conf.UnindexedState = c.Linear
		cont := sys.ExampleSystemControl()
		cont.Timing = false
		cont.LocationTTL = sys.Forever
		cont.DefaultLocControl = quietControl()
		cont.DefaultLocControl.CodeProps = map[string]interface{}{
			"record": func(call otto.FunctionCall) otto.Value {
				tag, _ := call.Argument(0).ToString()
				loc, _ := call.Argument(1).ToString()
				fmu.Lock()
				if fired[loc] == nil {
					fired[loc] = map[string]int{}
				}
				fired[loc][tag]++
				lastFired[tag] = time.Now()
				fmu.Unlock()
				return otto.TrueValue()
			},
		}
		var err error
		s, err = sys.NewSystem(ctx, *conf, *cont, &cron.InternalCron{Cron: cr})
		return err
	}
	shutdown := func() {
		cr.Kill(newCtx())
		time.Sleep(time.Millisecond)
		if s != nil {
			s.Close(newCtx())
		}
	}
	if err := boot(); err != nil {
		o.Fail("NEWSYSTEM", "%v", err)
		return o
	}
	defer func() { shutdown() }()
	sharedCtx := newCtx()
	clientCtx := func() *core.Context {
		if c.Reuse {
			return sharedCtx
		}
		return newCtx()
	}
	if c.Reuse {
		o.Label("one-context-for-all-requests")
	}
	if c.Parent {
		for _, ln := range []string{"A", "B"} {
			if _, err := s.SetParents(newCtx(), ln, []string{"P"}); err != nil {
				o.Fail("NEWSYSTEM", "SetParents: %v", err)
				return o
			}
		}
		if _, err := s.AddFact(newCtx(), "P", "likes", `{"likes":"tacos"}`); err != nil {
			o.Fail("NEWSYSTEM", "AddFact P: %v", err)
			return o
		}
		// P's own scheduled rule: due on 1 January only
		js, _ := json.Marshal(M{"schedule": "0 0 0 1 1 * *", "action": M{"code": "Env.record('P-yearly', Env.Location); 'ok'"}})
		if _, err := s.AddRule(newCtx(), "P", "s1", string(js)); err != nil {
			o.Fail("NEWSYSTEM", "AddRule P: %v", err)
			return o
		}
		o.Label("parent")
	}
	t0 := time.Now()
	rel := func(t time.Time) string { return "+" + t.Sub(t0).String() }
	type span struct{ from, to time.Time }
	var outages []span
	inOutage := func(t time.Time) bool {
		for _, sp := range outages {
			if !t.Before(sp.from.Add(-time.Second)) && !t.After(sp.to.Add(time.Second)) {
				return true
			}
		}
		return false
	}
	var gens []*c15sGen
	current := map[string]*c15sGen{}
	shared := false
	for i, x := range c.Ops {
		now := time.Now()
		when := fmt.Sprintf("op %d %s at %s", i, vlib.JSON(x), rel(now))
		key := x.Loc + "/" + x.Id
		retire := func(k string) {
			if g := current[k]; g != nil && g.removedAt.IsZero() {
				g.removedAt = now
			}
			delete(current, k)
		}
		switch x.K {
		case "sched":
			tag := fmt.Sprintf("g%d", i)
			sched := "+" + time.Duration(x.N).String()
			g := &c15sGen{loc: x.Loc, id: x.Id, tag: tag, d: time.Duration(x.N), due: now.Add(time.Duration(x.N))}
			if x.B {
				sched = "*/2 * * * * * *"
				g.recurring = true
				g.due = now.Truncate(2 * time.Second).Add(2 * time.Second)
			}
			if b, _ := x.Doc["bounded"].(bool); b {
				at := now.Add(time.Duration(x.N)).Truncate(time.Second).Add(time.Second).UTC()
				sched = fmt.Sprintf("%d %d %d %d %d * %d", at.Second(), at.Minute(), at.Hour(), at.Day(), int(at.Month()), at.Year())
				g.bounded = true
				g.recurring = true // (the rule is not deleted when it has run)
				g.due = at
				o.Label("bounded-schedule")
			}
			past, _ := x.Doc["past"].(bool)
			if past {
				sched = "0 0 0 1 1 * 2001"
				g.recurring = true
				g.never = true
				o.Label("past-schedule")
			}
			rule := M{"schedule": sched, "action": M{"code": fmt.Sprintf("Env.record('%s' + (location == Env.Location ? '' : '!location=' + location) + (ruleId == '%s' ? '' : '!ruleId=' + ruleId), Env.Location); Env.AddFact('', {fired: '%s'}); 'ok'", tag, x.Id, tag)}}
			if c.Parent {
				// the condition looks at the facts, the parent's included
				rule["condition"] = M{"pattern": M{"likes": "?liked"}}
			}
			js, _ := json.Marshal(rule)
			if _, err := s.AddRule(clientCtx(), x.Loc, x.Id, string(js)); err != nil {
				if past {
					// refused: nothing has changed, the rule that was
					// there (if any) stays and keeps its job
					o.Label("past-schedule-refused")
					continue
				}
				o.Fail("ADDRULE_ERROR", "%s: %v", when, err)
				return o
			}
			g.firstDue = g.due
			retire(key)
			current[key] = g
			gens = append(gens, g)
			other := "A"
			if x.Loc == "A" {
				other = "B"
			}
			if current[other+"/"+x.Id] != nil {
				shared = true
			}
		case "rem":
			s.RemRule(clientCtx(), x.Loc, x.Id)
			retire(key)
		case "rule":
			js, _ := json.Marshal(mkRule(M{"a": "x"}, "ordinary"))
			if _, err := s.AddRule(clientCtx(), x.Loc, x.Id, string(js)); err != nil {
				o.Fail("ADDRULE_ERROR", "%s: %v", when, err)
				return o
			}
			retire(key)
		case "clear":
			if err := s.ClearLocation(clientCtx(), x.Loc); err != nil {
				o.Fail("CLEAR_ERROR", "%s: %v", when, err)
				return o
			}
			for k := range current {
				if k[:1] == x.Loc {
					retire(k)
				}
			}
			if c.Parent {
				// (the parents went with everything else)
				if _, err := s.SetParents(clientCtx(), x.Loc, []string{"P"}); err != nil {
					o.Fail("CLEAR_ERROR", "%s: SetParents after the clear: %v", when, err)
					return o
				}
			}
		case "sleep":
			time.Sleep(time.Duration(x.N))
		case "outage":
			// the parent is out of order for a while: ticks of its
			// children fail meanwhile, and work again afterwards
			pctx := newCtx()
			ploc, err := s.GetLocation(pctx, "P")
			if err != nil {
				o.Fail("OUTAGE", "%s: %v", when, err)
				return o
			}
			pctx.SetLoc(ploc)
			if err := ploc.SetProp(pctx, "", "enabled", "false"); err != nil {
				o.Fail("OUTAGE", "%s: switching P off: %v", when, err)
				return o
			}
			time.Sleep(time.Duration(x.N))
			pctx = newCtx()
			pctx.SetLoc(ploc)
			if err := ploc.RemProp(pctx, "", "enabled"); err != nil {
				o.Fail("OUTAGE", "%s: switching P on again: %v", when, err)
				return o
			}
			outages = append(outages, span{now, time.Now()})
			o.Label("parent-outage")
		case "restart":
			// the process restarts: the ephemeral cron loses its jobs;
			// loading the locations again must register the scheduled
			// rules again
			shutdown()
			if err := boot(); err != nil {
				o.Fail("NEWSYSTEM", "%s: restart failed: %v", when, err)
				return o
			}
			for _, ln := range []string{"A", "B"} {
				if _, err := s.GetSize(clientCtx(), ln); err != nil {
					o.Fail("RELOAD", "%s: loading %s after the restart failed: %v", when, ln, err)
					return o
				}
			}
			at := time.Now()
			for _, g := range current {
				if g.bounded {
					// (its one occurrence is where it is; if that has
					// passed, nothing is left to run - and the location
					// loads all the same)
				} else if g.recurring {
					g.due = at.Truncate(2 * time.Second).Add(2 * time.Second)
				} else {
					// a relative schedule starts over when it is
					// registered again
					g.due = at.Add(g.d)
				}
				g.restarted = true
			}
			o.Label("restart")
		}
	}
	time.Sleep(5 * time.Second)
	end := time.Now()
	fmu.Lock()
	defer fmu.Unlock()
	hist := func() string {
		var rows []string
		for _, g := range gens {
			rem := "never"
			if !g.removedAt.IsZero() {
				rem = rel(g.removedAt)
			}
			rows = append(rows, fmt.Sprintf("%s{%s/%s due %s removed %s recurring %v fired A:%d B:%d}", g.tag, g.loc, g.id, rel(g.due), rem, g.recurring, fired["A"][g.tag], fired["B"][g.tag]))
		}
		sort.Strings(rows)
		return fmt.Sprint(rows) + " ops " + vlib.JSON(c.Ops)
	}
	for _, g := range gens {
		other := "A"
		if g.loc == "A" {
			other = "B"
		}
		n := fired[g.loc][g.tag]
		if fired[other][g.tag] > 0 {
			o.Fail("SCHEDULED_RULE_RAN_IN_WRONG_LOCATION", "rule %s of location %s ran in location %s; %s", g.tag, g.loc, other, hist())
		}
		if g.never {
			if n > 0 {
				o.Fail("SCHEDULED_RULE_RAN_WHEN_NOT_DUE", "rule %s has a schedule without any occurrence from now on (1 January 2001) and ran %d times; %s", g.tag, n, hist())
			}
			continue
		}
		removedBeforeDue := !g.removedAt.IsZero() && g.removedAt.Before(g.firstDue)
		if removedBeforeDue && n > 0 {
			o.Fail("SCHEDULED_RULE_RAN_AFTER_REMOVAL", "rule %s was removed/replaced/cleared before it was due but ran %d times; %s", g.tag, n, hist())
		}
		if !g.recurring && n > 1 {
			o.Fail("ONESHOT_RULE_RAN_TWICE", "one-shot rule %s ran %d times; %s", g.tag, n, hist())
		}
		if g.bounded && n > 1 {
			o.Fail("BOUNDED_SCHEDULE_RAN_TWICE", "rule %s has a schedule with one occurrence but ran %d times; %s", g.tag, n, hist())
		}
		if g.recurring && !g.bounded && g.removedAt.IsZero() && len(outages) > 0 {
			// a recurring rule keeps running after its parent's outage
			if last, ran := lastFired[g.tag]; g.due.Add(time.Second).Before(end) && (!ran || end.Sub(last) > 4500*time.Millisecond) {
				o.Fail("SCHEDULED_RULE_DID_NOT_RUN", "recurring rule %s (location %s id %s, every 2 s) still exists but did not run in the last 4.5 s before the end (last run: %v, end %s; parent outages %v); %s", g.tag, g.loc, g.id, last.Sub(t0), rel(end), len(outages), hist())
			}
		}
		live := g.removedAt.IsZero() || g.removedAt.After(g.due.Add(time.Second))
		if inOutage(g.due) || inOutage(g.firstDue) {
			live = false // (its tick fell into an outage of the parent)
		}
		if g.bounded && g.restarted {
			live = false // (a restart may have fallen on the occurrence)
		}
		if live && n == 0 && g.due.Add(time.Second).Before(end) {
			o.Fail("SCHEDULED_RULE_DID_NOT_RUN", "rule %s (location %s id %s) was due at %s and still existed a second later but never ran; %s", g.tag, g.loc, g.id, rel(g.due), hist())
		}
		if !g.recurring && n == 1 && g.removedAt.IsZero() {
			// the one-shot rule is deleted after it ran
			if _, err := s.GetRule(newCtx(), g.loc, g.id); err == nil {
				o.Fail("ONESHOT_RULE_NOT_DELETED", "one-shot rule %s ran but %s/%s still exists; %s", g.tag, g.loc, g.id, hist())
			}
		}
	}
	for ln, m := range fired {
		if m["P-yearly"] > 0 {
			o.Fail("SCHEDULED_RULE_RAN_WHEN_NOT_DUE", "the rule of P, due on 1 January only, ran %d times (in %s); %s", m["P-yearly"], ln, hist())
		}
	}
	if shared {
		o.Label("shared-id")
		o.NonTrivial = true
	}
	_ = core.Complete
	return o
}

func TestC15Sys(t *testing.T) {
	vlib.Check(t, "C15", genC15Sys, runC15Sys)
}
