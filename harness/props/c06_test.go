package props

// C06 — acknowledged changes are durable; reload reproduces the live
// location; crash points; storage faults.
//
//  1. reload equivalence: after every operation a second location is built
//     from the same storage alone and compared observationally with the live
//     one (and both with the model);
//  2. crash points: the history is re-run with the process "dying" at the
//     k-th storage write; after reload every id is in the state it had before
//     or after the interrupted operation (ids outside the operation's
//     footprint are therefore unchanged and every acknowledged operation is
//     reflected);
//  3. injected errors: the j-th storage call fails; the operation in which it
//     fired must report an error;
//  4. back-end aliasing (bolt): data handed out by Load must stay intact
//     while later writes grow the file.

import (
	"fmt"
	"os"
	"path/filepath"
	"runtime/debug"
	"sort"
	"strings"
	"testing"

	"github.com/Comcast/rulio/core"
	"github.com/Comcast/rulio/storage/bolt"
	"pgregory.net/rapid"

	"verif/harness/gen"
	"verif/harness/vlib"
)

type c06Case struct {
	Kind   string `json:"kind"`
	Store  string `json:"store"`
	Ops    []op   `json:"ops"`
	Points []int  `json:"points"`
	All    bool   `json:"all"`
}

var c06Ids = []string{"f1", "f2", "f3", "r1", "r2"}

func genC06(t *rapid.T) c06Case {
	var c c06Case
	c.Kind = rapid.SampledFrom([]string{"indexed", "linear"}).Draw(t, "kind")
	c.Store = rapid.SampledFrom([]string{"mem", "mem", "mem", "bolt"}).Draw(t, "store")
	c.All = os.Getenv("VERIF_TIER") == "thorough"
	n := rapid.IntRange(2, 14).Draw(t, "nops")
	far := float64(4102444800) // 2100-01-01
	for i := 0; i < n; i++ {
		l := fmt.Sprintf("op%d", i)
		kinds := []string{"addFact", "addFact", "addFact", "addRule", "addRule", "remFact", "remRule", "enable", "setParents", "setProp", "clear", "reload"}
		if c.Store == "bolt" {
			kinds = append(kinds, "bulk", "reload")
		}
		switch k := rapid.SampledFrom(kinds).Draw(t, l+".kind"); k {
		case "addFact":
			f := gen.Map(t, gen.Opts{NoEmpty: true, NoMixed: true}, 1, l+".fact")
			switch rapid.IntRange(0, 5).Draw(t, l+".extra") {
			case 0:
				f["ttl"] = rapid.SampledFrom([]interface{}{"1000h", "90m", 86400.0}).Draw(t, l+".ttl")
			case 1:
				f["expires"] = rapid.SampledFrom([]interface{}{far, far + 77, "2100-01-01T00:00:00Z"}).Draw(t, l+".expires")
			case 2:
				f["deleteWith"] = A{rapid.SampledFrom(c06Ids).Draw(t, l+".dw")}
			}
			id := rapid.SampledFrom(append([]string{""}, c06Ids[:3]...)).Draw(t, l+".id")
			c.Ops = append(c.Ops, op{K: "addFact", Id: id, Doc: f})
		case "addRule":
			r := mkRule(rapid.SampledFrom([]M{{"a": "x"}, {"a": "?v"}, {"b": A{"?w"}}}).Draw(t, l+".when"), fmt.Sprintf("t%d", i))
			switch rapid.IntRange(0, 4).Draw(t, l+".extra") {
			case 0:
				r["ttl"] = "1000h"
			case 1:
				r["expires"] = far
			case 2:
				r["deleteWith"] = A{rapid.SampledFrom(c06Ids).Draw(t, l+".dw")}
			}
			c.Ops = append(c.Ops, op{K: "addRule", Id: rapid.SampledFrom(c06Ids[3:]).Draw(t, l+".id"), Doc: r})
		case "remFact":
			c.Ops = append(c.Ops, op{K: "remFact", Id: rapid.SampledFrom(c06Ids).Draw(t, l+".id")})
		case "remRule":
			c.Ops = append(c.Ops, op{K: "remRule", Id: rapid.SampledFrom(c06Ids[3:]).Draw(t, l+".id")})
		case "enable":
			c.Ops = append(c.Ops, op{K: "enable", Id: rapid.SampledFrom(c06Ids[3:]).Draw(t, l+".id"), B: rapid.Bool().Draw(t, l+".on")})
		case "setParents":
			c.Ops = append(c.Ops, op{K: "setParents", L: rapid.SliceOfNDistinct(rapid.SampledFrom([]string{"P", "Q"}), 0, 2, rapid.ID[string]).Draw(t, l+".parents")})
		case "setProp":
			c.Ops = append(c.Ops, op{K: "setProp", Id: rapid.SampledFrom(c06Ids).Draw(t, l+".id"), Doc: M{"p": rapid.SampledFrom([]string{"p", "q"}).Draw(t, l+".p"), "v": gen.Scalar(t, gen.Opts{}, l+".v")}})
		case "clear":
			if rapid.IntRange(0, 2).Draw(t, l+".really") == 0 {
				c.Ops = append(c.Ops, op{K: "clear"})
			}
		case "reload":
			c.Ops = append(c.Ops, op{K: "reload"})
		case "bulk":
			c.Ops = append(c.Ops, op{K: "bulk"})
		}
	}
	np := 3
	for i := 0; i < np; i++ {
		c.Points = append(c.Points, rapid.IntRange(0, 1000).Draw(t, "point"))
	}
	return c
}

var c06Patterns = []M{{"a": "?x"}, {"b": "?y"}, {"rule": "?r"}, {"deleteWith": A{"?d"}}, {"id": "?t"}, {"c": "?z"}, {"d": "?z"}}
var c06Events = []M{{"a": "x"}, {"a": "y", "b": A{"u", "v"}}}

type storeHandle struct {
	inner core.Storage
	dir   string
}

func openStore(kind string) (*storeHandle, error) {
	if kind == "bolt" {
		base := "/dev/shm"
		if _, err := os.Stat(base); err != nil {
			base = os.TempDir()
		}
		dir, err := os.MkdirTemp(base, "vc06-")
		if err != nil {
			return nil, err
		}
		st, err := bolt.NewStorage(newCtx(), filepath.Join(dir, "state.db"))
		if err != nil {
			os.RemoveAll(dir)
			return nil, err
		}
		return &storeHandle{st, dir}, nil
	}
	st, _ := core.NewMemStorage(newCtx())
	return &storeHandle{st, ""}, nil
}

func (h *storeHandle) close() {
	h.inner.Close(newCtx())
	if h.dir != "" {
		os.RemoveAll(h.dir)
	}
}

// c06HandedOut: what Load hands back (keys and values) stays intact while
// later writes to the same storage proceed - here: every loaded record is
// removed and others are written, in this location and in another one.
func c06HandedOut(st core.Storage, kind string, o *vlib.Outcome) {
	ctx := newCtx()
	pairs, err := st.Load(ctx, "L")
	if err != nil || len(pairs) == 0 {
		return
	}
	type kv struct{ k, v string }
	want := make([]kv, len(pairs))
	for i, p := range pairs {
		want[i] = kv{string(p.K), string(p.V)}
	}
	o.Label("handed-out-data-vs-later-writes")
	// (reading a mapping that is gone is a failure of this case, not the
	// end of the process)
	defer debug.SetPanicOnFault(debug.SetPanicOnFault(true))
	defer func() {
		if r := recover(); r != nil {
			o.Fail("LOADED_DATA_CLOBBERED", "[%s] the records handed out by Load cannot be read any more after later writes: %v", kind, r)
		}
	}()
	for round := 0; round < 6; round++ {
		for i, w := range want {
			if round == 0 {
				if _, err := st.Remove(ctx, "L", []byte(w.k)); err != nil {
					return
				}
			} else {
				st.Remove(ctx, "L", []byte(fmt.Sprintf("later-%02d-%03d", round-1, i)))
			}
			k := fmt.Sprintf("later-%02d-%03d", round, i)
			v := fmt.Sprintf(`{"later":"%04d","pad":"%s"}`, round*len(want)+i, strings.Repeat("p", len(w.v)))
			if err := st.Add(ctx, "L", &core.Pair{K: []byte(k), V: []byte(v)}); err != nil {
				return
			}
			if err := st.Add(ctx, "elsewhere", &core.Pair{K: []byte(k), V: []byte(v)}); err != nil {
				return
			}
		}
		for i, p := range pairs {
			if string(p.K) != want[i].k || string(p.V) != want[i].v {
				o.Fail("LOADED_DATA_CLOBBERED", "[%s] record %d handed out by Load was (%q, %q) and reads (%q, %q) after round %d of later writes to the same storage", kind, i, want[i].k, want[i].v, string(p.K), string(p.V), round)
				return
			}
		}
	}
}

func bulkOps() []op {
	var ops []op
	for i := 0; i < 40; i++ {
		ops = append(ops, op{K: "addFact", Id: fmt.Sprintf("bulk%02d", i), Doc: M{"big": strings.Repeat("B", 1100), "n": float64(i)}})
	}
	return ops
}

func expand(ops []op) []op {
	var acc []op
	for _, x := range ops {
		if x.K == "bulk" {
			acc = append(acc, bulkOps()...)
		} else {
			acc = append(acc, x)
		}
	}
	return acc
}

// runOp executes one op on the live location and, if acknowledged, on the
// model.  A crash sentinel panic is reported as crashed=true.
func runOp(w *world, x op) (err error, crashed bool) {
	defer func() {
		if r := recover(); r != nil {
			if _, ok := r.(crashSentinel); ok {
				crashed = true
				return
			}
			panic(r)
		}
	}()
	if x.K == "reload" {
		return w.reload("L"), false
	}
	t0 := nowSecs()
	id, err := w.applyReal("L", x)
	t1 := nowSecs()
	if err == nil {
		w.applyModel(w.model["L"], x, id, t0, t1)
	}
	return err, false
}

func universeOf(ms ...*mLoc) []string {
	set := map[string]bool{}
	for _, id := range c06Ids {
		set[id] = true
	}
	for _, m := range ms {
		for id := range m.Items {
			set[id] = true
		}
	}
	ids := make([]string, 0, len(set))
	for id := range set {
		ids = append(ids, id)
	}
	sort.Strings(ids)
	return ids
}

func runC06(c c06Case) *vlib.Outcome {
	o := &vlib.Outcome{}
	if c.Kind != "indexed" && c.Kind != "linear" {
		o.Discard = true
		return o
	}
	ops := expand(c.Ops)
	tag := fmt.Sprintf("[%s/%s]", c.Kind, c.Store)

	// ---- pass A: clean run, model checks and reload equivalence
	h, err := openStore(c.Store)
	if err != nil {
		o.Fail("STORE", "cannot open store: %v", err)
		return o
	}
	fs := newFaultStore(h.inner)
	w := newWorld(c.Kind, fs, o)
	if _, err := w.open("L"); err != nil {
		h.close()
		o.Fail("OPEN", "cannot create location: %v", err)
		return o
	}
	callsBefore := make([]int, len(ops)+1)
	writesBefore := make([]int, len(ops)+1)
	cascades := false
	for i, x := range ops {
		callsBefore[i], writesBefore[i] = fs.calls, fs.writes
		when := fmt.Sprintf("%s after op %d %s", tag, i, opString(x))
		before := len(w.model["L"].Items)
		_, had := w.model["L"].Items[x.Id]
		err, _ := runOp(w, x)
		if err != nil {
			o.Label("op-refused")
		} else if (x.K == "remFact" || x.K == "remRule") && before-len(w.model["L"].Items) >= 2 {
			cascades = true
		} else if (x.K == "addFact" || x.K == "addRule") && had && x.Id != "" {
			cascades = true
		}
		if strings.HasPrefix(x.Id, "bulk") && i+1 < len(ops) && strings.HasPrefix(ops[i+1].Id, "bulk") {
			continue // check after the last bulk write only
		}
		ids := universeOf(w.model["L"])
		w.checkAll("L", ids, when)
		if o.Failed() {
			break
		}
		// reload equivalence: live vs rebuilt from storage alone
		re, err := w.build("L")
		if err != nil {
			o.Fail("RELOAD", "%s: rebuilding the location from storage failed: %v", when, err)
			break
		}
		if d := diffObs(observe(w.locs["L"], ids, c06Patterns, c06Events), observe(re, ids, c06Patterns, c06Events)); len(d) > 0 {
			o.Fail("RELOAD_DIFFERS", "%s: the location rebuilt from storage differs from the live one: %s", when, strings.Join(d, " || "))
			break
		}
	}
	callsBefore[len(ops)], writesBefore[len(ops)] = fs.calls, fs.writes
	totalCalls, totalWrites := fs.calls, fs.writes
	if !o.Failed() {
		c06HandedOut(h.inner, c.Store, o)
	}
	h.close()
	if o.Failed() {
		return o
	}
	if cascades && totalWrites >= 3 {
		o.NonTrivial = true
	}
	if c.Store == "bolt" {
		o.Label("bolt")
	}

	// which points
	pick := func(total int) []int {
		if total <= 0 {
			return nil
		}
		if c.All && total <= 400 {
			acc := make([]int, total)
			for i := range acc {
				acc[i] = i + 1
			}
			return acc
		}
		seen := map[int]bool{}
		var acc []int
		for _, p := range c.Points {
			k := p%total + 1
			if !seen[k] {
				seen[k] = true
				acc = append(acc, k)
			}
		}
		return acc
	}

	// ---- pass B: crash points
	for _, k := range pick(totalWrites) {
		h, err := openStore(c.Store)
		if err != nil {
			o.Fail("STORE", "cannot open store: %v", err)
			return o
		}
		fs := newFaultStore(h.inner)
		fs.crashAt = k
		w := newWorld(c.Kind, fs, o)
		if _, err := w.open("L"); err != nil {
			h.close()
			o.Fail("OPEN", "cannot create location: %v", err)
			return o
		}
		for i, x := range ops {
			m0 := w.model["L"].clone()
			_, crashed := runOp(w, x)
			if !crashed {
				continue
			}
			o.Label("crash-point")
			when := fmt.Sprintf("%s crash at storage write %d inside op %d %s", tag, k, i, opString(x))
			m1 := m0.clone()
			now := nowSecs()
			if x.K != "reload" {
				w.applyModel(m1, x, "", now, now)
			}
			unknownNew := x.K == "addFact" && x.Id == "" && !hasBangKey(x.Doc)
			// rebuild from the inner storage alone
			w2 := newWorld(c.Kind, h.inner, o)
			re, err := w2.open("L")
			if err != nil {
				o.Fail("RELOAD_AFTER_CRASH", "%s: reload failed: %v", when, err)
				break
			}
			keys, _ := w2.storageKeys("L")
			extra := 0
			for id := range keys {
				_, in0 := m0.Items[id]
				_, in1 := m1.Items[id]
				if !in0 && !in1 && !m0.Unspec[id] && !m1.Unspec[id] {
					extra++
					if !unknownNew || extra > 1 {
						o.Fail("CRASH_FOREIGN_ID", "%s: after reload storage holds id %q which neither the state before nor after the interrupted operation has", when, id)
					}
				}
			}
			for _, id := range universeOf(m0, m1) {
				if m0.Unspec[id] || m1.Unspec[id] {
					continue
				}
				got, gerr := re.GetFact(newCtx(), id)
				ok := false
				var wants []string
				for _, m := range []*mLoc{m0, m1} {
					it, have := m.Items[id]
					if !have {
						wants = append(wants, "<absent>")
						if _, nf := gerr.(*core.NotFoundError); nf {
							ok = true
						}
						continue
					}
					wants = append(wants, vlib.JSON(it.Stored))
					if gerr == nil && equalStored(widen(it.Stored), map[string]interface{}(got)) {
						ok = true
					}
				}
				if !ok {
					gs := vlib.JSON(got)
					if gerr != nil {
						gs = "error " + gerr.Error()
					}
					o.Fail("CRASH_STATE", "%s: after reload id %q is %s; expected its state before (%s) or after (%s) the interrupted operation", when, id, gs, wants[0], wants[1])
				}
			}
			break
		}
		h.close()
		if o.Failed() {
			return o
		}
	}

	// ---- pass C: injected storage errors
	for _, j := range pick(totalCalls) {
		h, err := openStore(c.Store)
		if err != nil {
			o.Fail("STORE", "cannot open store: %v", err)
			return o
		}
		fs := newFaultStore(h.inner)
		fs.failAt = j
		w := newWorld(c.Kind, fs, o)
		_, err = w.open("L")
		if fs.fired {
			if err == nil {
				o.Fail("FAULT_SWALLOWED", "%s: storage call %d (%s) failed while loading the location but NewLocation reported success", tag, j, fs.log[len(fs.log)-1])
			}
			o.Label("fault-in-load")
			h.close()
			if o.Failed() {
				return o
			}
			continue
		}
		if err != nil {
			h.close()
			o.Fail("OPEN", "cannot create location: %v", err)
			return o
		}
		faultAt := -1
		for i, x := range ops {
			m0 := w.model["L"].clone()
			err, _ := runOp(w, x)
			if fs.fired && faultAt < 0 {
				faultAt = i
				o.Label("fault-point")
				if err == nil {
					o.Fail("FAULT_SWALLOWED", "%s: storage call %d (%s) failed inside op %d %s but the operation reported success", tag, j, fs.log[j-1], i, opString(x))
					break
				}
				if x.K == "reload" || x.K == "clear" {
					break // nothing left to say about the location
				}
				// The operation failed: what it names is unspecified
				// from here on (until an acknowledged operation defines
				// it again); everything else goes on as before.
				ml := w.model["L"]
				m1 := m0.clone()
				now := nowSecs()
				w.applyModel(m1, x, "", now, now)
				for _, id := range universeOf(m0, m1) {
					i0, h0 := m0.Items[id]
					i1, h1 := m1.Items[id]
					if h0 != h1 || (h0 && h1 && !equalStored(widen(i0.Stored), widen(i1.Stored).(M))) || m1.Unspec[id] != m0.Unspec[id] {
						if h1 {
							// (what the failed operation would have stored
							// may be there, or what was there before: the
							// deleteWith of both counts)
							merged := *i1
							if h0 {
								merged.DeleteWith = append(append([]string{}, i1.DeleteWith...), i0.DeleteWith...)
							}
							ml.Items[id] = &merged
						}
						ml.markUnspecClosure(id)
					}
				}
				if x.Id != "" {
					ml.markUnspecClosure(x.Id)
				}
				if x.Id == "" && (x.K == "addFact" || x.K == "addRule") {
					break // an id nobody knows may or may not exist now
				}
				continue
			}
		}
		if faultAt >= 0 && faultAt < len(ops)-1 && !o.Failed() && ops[faultAt].K != "reload" && ops[faultAt].K != "clear" && !(ops[faultAt].Id == "" && (ops[faultAt].K == "addFact" || ops[faultAt].K == "addRule")) {
			// after the failed operation the location went on: what was
			// acknowledged since must be there, live and after a reload
			when := fmt.Sprintf("%s after storage call %d (%s) failed inside op %d %s and the remaining operations ran", tag, j, fs.log[j-1], faultAt, opString(ops[faultAt]))
			ids := universeOf(w.model["L"])
			for _, id := range ids {
				w.checkGet("L", id, when+" (live)")
			}
			if !o.Failed() {
				w2 := newWorld(c.Kind, h.inner, o)
				w2.model["L"] = w.model["L"]
				if _, err := w2.open("L"); err != nil {
					o.Fail("RELOAD", "%s: reload failed: %v", when, err)
				} else {
					for _, id := range ids {
						w2.checkGet("L", id, when+" (rebuilt from storage)")
					}
				}
			}
			o.Label("continued-after-fault")
		}
		h.close()
		if o.Failed() {
			return o
		}
	}
	return o
}

func hasBangKey(m M) bool {
	for k := range m {
		if strings.HasPrefix(k, "!") {
			return true
		}
	}
	return false
}

// widen turns point expectations of ttl-derived expiry into a band of a few
// seconds (the crash re-run happens at a slightly different time).
func widen(x interface{}) interface{} {
	switch v := x.(type) {
	case expBand:
		return v
	case M:
		n := make(M, len(v))
		for k, y := range v {
			n[k] = widen(y)
		}
		return n
	}
	return x
}

func opString(x op) string {
	s := vlib.JSON(x)
	if len(s) > 300 {
		s = s[:300] + "..."
	}
	return s
}

func TestC06(t *testing.T) {
	vlib.Check(t, "C06", genC06, runC06)
}
