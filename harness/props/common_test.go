package props

import (
	"fmt"
	"sort"
	"strings"

	"github.com/Comcast/rulio/core"

	"verif/harness/gen"
	"verif/harness/refmatch"
)

type M = map[string]interface{}
type A = []interface{}

// quietCtx returns a context that logs nothing.
func quietCtx(name string) *core.Context {
	return core.BenchContext(name)
}

func sortedKeys(m map[string]bool) []string {
	ks := make([]string, 0, len(m))
	for k := range m {
		ks = append(ks, k)
	}
	sort.Strings(ks)
	return ks
}

// diffSets describes a \ b.
func diffSets(a, b map[string]bool) []string {
	var d []string
	for k := range a {
		if !b[k] {
			d = append(d, k)
		}
	}
	sort.Strings(d)
	return d
}

func toRefBindings(bss []core.Bindings) []refmatch.Bindings {
	acc := make([]refmatch.Bindings, len(bss))
	for i, b := range bss {
		acc[i] = refmatch.Bindings(b)
	}
	return acc
}

func hasVar(x interface{}) bool {
	return gen.Has(x, func(y interface{}) bool {
		if refmatch.IsVar(y) {
			return true
		}
		if m, ok := y.(M); ok {
			for k := range m {
				if strings.HasPrefix(k, "?") {
					return true
				}
			}
		}
		return false
	})
}

func hasArray(x interface{}) bool {
	return gen.Has(x, func(y interface{}) bool { _, ok := y.(A); return ok })
}

func hasEmptyContainer(x interface{}) bool {
	return gen.Has(x, func(y interface{}) bool {
		switch v := y.(type) {
		case M:
			return len(v) == 0
		case A:
			return len(v) == 0
		}
		return false
	})
}

func sprintf(f string, a ...interface{}) string { return fmt.Sprintf(f, a...) }
