package props

// C16 (in-memory cron) — jobs fire when due, once, and never after removal.
//
// Runs on the virtual clock.  Generated sequences of Add (one-shot "+d",
// "!t", recurring 7-field expressions; replacing an id), Rem, Suspend,
// Resume, Pause and sleeps; job functions record (generation, virtual
// instant) and take a generated virtual duration.

import (
	"os"
	"fmt"
	"sort"
	"sync"
	"testing"
	"time"

	"github.com/Comcast/rulio/core"
	"github.com/Comcast/rulio/cron"
	"github.com/gorhill/cronexpr"
	"pgregory.net/rapid"

	"verif/harness/vlib"
)

type c16Case struct {
	Ops []op `json:"ops"`
	// StretchMs > 0: the cron's context logs, and its LogHook sleeps that
	// long (virtual time) at the record "Cron.schedule" whenever that is not
	// written from one of the harness's own Add calls, i.e. when the firing
	// goroutine re-schedules a recurring job after its function returned.
	// Harness operations then fall into that moment.
	StretchMs int `json:"stretchMs,omitempty"`
}

// (the last two have no occurrence in the future: a year that is over, a day
// that does not exist)
var c16Exprs = []string{"* * * * * * *", "*/2 * * * * * *", "*/5 * * * * * *", "0 0 0 1 1 * 2001", "0 0 0 30 2 * *"}

const c16Pause = 700 * time.Millisecond

func genC16(t *rapid.T) c16Case {
	var c c16Case
	n := rapid.IntRange(2, 16).Draw(t, "nops")
	if rapid.IntRange(0, 2).Draw(t, "stretch?") == 0 {
		c.StretchMs = rapid.SampledFrom([]int{1, 50, 300}).Draw(t, "stretch")
	}
	ids := []string{"j1", "j2", "j3", "j4"}
	for i := 0; i < n; i++ {
		l := fmt.Sprintf("op%d", i)
		switch rapid.SampledFrom([]string{"add", "add", "add", "add", "rem", "rem", "sleep", "sleep", "sleep", "suspend", "resume", "pause", "overlap"}).Draw(t, l+".kind") {
		case "overlap":
			// generations of one id whose (slow) functions overlap in
			// time, then a removal while one of them is running
			id := rapid.SampledFrom(ids).Draw(t, l+".id")
			gaps := []int64{100e6, 500e6, 700e6, 1e9, 1300e6, 1500e6}
			mk := func(tag string) op {
				return op{K: "add", Id: id, N: int64(rapid.IntRange(0, 1).Draw(t, l+tag+".expr")),
					Doc: M{"kind": "expr", "dur": float64(rapid.SampledFrom([]int64{200e6, 1200e6, 1200e6}).Draw(t, l+tag+".dur"))}}
			}
			c.Ops = append(c.Ops, mk(".a"),
				op{K: "sleep", N: rapid.SampledFrom(gaps).Draw(t, l+".g1")},
				mk(".b"),
				op{K: "sleep", N: rapid.SampledFrom(gaps).Draw(t, l+".g2")},
				op{K: "rem", Id: id},
				op{K: "sleep", N: 3e9})
		case "add":
			id := rapid.SampledFrom(ids).Draw(t, l+".id")
			kind := rapid.SampledFrom([]string{"plus", "plus", "bang", "expr"}).Draw(t, l+".sched")
			x := op{K: "add", Id: id, Doc: M{"kind": kind}}
			switch kind {
			case "plus", "bang":
				x.N = rapid.SampledFrom([]int64{0, 1e6, 300e6, 1e9, 1500e6, 2500e6, 4e9}).Draw(t, l+".d")
			default:
				x.N = int64(rapid.IntRange(0, len(c16Exprs)-1).Draw(t, l+".expr"))
			}
			// virtual duration of the job function
			x.Doc["dur"] = float64(rapid.SampledFrom([]int64{0, 0, 0, 200e6, 1200e6}).Draw(t, l+".dur"))
			c.Ops = append(c.Ops, x)
		case "rem":
			c.Ops = append(c.Ops, op{K: "rem", Id: rapid.SampledFrom(ids).Draw(t, l+".id")})
		case "sleep":
			c.Ops = append(c.Ops, op{K: "sleep", N: rapid.SampledFrom([]int64{1e6, 100e6, 500e6, 1e9, 1500e6, 3e9}).Draw(t, l+".ns")})
		case "suspend", "resume", "pause":
			c.Ops = append(c.Ops, op{K: rapid.SampledFrom([]string{"suspend", "resume", "pause"}).Draw(t, l+".cmd")})
		}
	}
	return c
}

type c16Gen struct {
	id        string
	n         int
	oneShot   bool
	due       time.Time
	expr      *cronexpr.Expression
	never     bool // the expression has no occurrence in the future
	schedule  string
	addedAt   time.Time
	removedAt time.Time // zero = never
	dur       time.Duration
	fires     []time.Time
}

type c16Span struct{ from, to time.Time }

func runC16(c c16Case) *vlib.Outcome {
	o := &vlib.Outcome{}
	if !vlib.Faketime {
		o.Fail("NEEDS_FAKETIME", "this check must be built with -tags faketime")
		return o
	}
	// start every case at the same phase of the recurring schedules
	if n := time.Now(); true {
		next := n.Truncate(10 * time.Second).Add(10 * time.Second)
		time.Sleep(next.Sub(n))
	}
	ctx := newCtx()
	inHarnessCall := false
	if c.StretchMs > 0 && c.StretchMs <= 2000 {
		ctx.Verbosity = core.EVERYTHING
		// (rulio's logger prints records it cannot marshal - a job holds
		// a function - to os.Stdout: keep that out of the test's output)
		if devnull, err := os.OpenFile(os.DevNull, os.O_WRONLY, 0); err == nil {
			saved := os.Stdout
			os.Stdout = devnull
			defer func() { os.Stdout = saved; devnull.Close() }()
		}
		ctx.LogHook = func(level core.LogLevel, args ...interface{}) {
			if len(args) > 1 && args[1] == "Cron.schedule" && !inHarnessCall {
				time.Sleep(time.Duration(c.StretchMs) * time.Millisecond)
			}
		}
		o.Label("reschedule-stretched")
	}
	cr, err := cron.NewCron(cron.NewCronBroadcaster(), c16Pause, "verif", 1000)
	if err != nil {
		o.Fail("NEW", "%v", err)
		return o
	}
	cr.Start(ctx)
	time.Sleep(time.Millisecond)
	cr.Resume(ctx)
	time.Sleep(time.Millisecond)

	var mu sync.Mutex
	var gens []*c16Gen
	current := map[string]*c16Gen{}
	var blocked []c16Span // suspended or paused spans
	// spans in which the cron is certainly suspended: from the moment the
	// loop has taken the suspend command (queued behind earlier pauses) to
	// the moment Resume is called
	var suspendedSure []c16Span
	var suspendEffective *time.Time
	var suspendedSince *time.Time
	var busyUntil time.Time // the loop is busy with queued pauses until then
	remBeforeDue, replaced := false, false

	invariant := func(when string) {
		cr.Lock()
		defer cr.Unlock()
		seen := map[string]bool{}
		for i, j := range cr.Timeline {
			if seen[j.Id] {
				o.Fail("CRON_DUPLICATE_ENTRY", "%s: two pending entries for job id %q", when, j.Id)
			}
			seen[j.Id] = true
			if i > 0 && j.Next.Before(cr.Timeline[i-1].Next) {
				o.Fail("CRON_TIMELINE_UNSORTED", "%s: timeline entry %d (%s at %v) is before entry %d (%v)", when, i, j.Id, j.Next, i-1, cr.Timeline[i-1].Next)
			}
		}
	}

	for i, x := range c.Ops {
		now := time.Now()
		when := fmt.Sprintf("op %d %s at +%v", i, vlib.JSON(x), now.Sub(time.Unix(1257894000, 0)))
		switch x.K {
		case "add":
			kind, _ := x.Doc["kind"].(string)
			durF, _ := x.Doc["dur"].(float64)
			g := &c16Gen{id: x.Id, n: len(gens), addedAt: now, dur: time.Duration(int64(durF))}
			switch kind {
			case "plus":
				g.oneShot = true
				g.due = now.Add(time.Duration(x.N))
				g.schedule = "+" + time.Duration(x.N).String()
			case "bang":
				g.oneShot = true
				g.due = now.Add(time.Duration(x.N))
				g.schedule = "!" + g.due.UTC().Format(time.RFC3339Nano)
			default:
				if x.N < 0 || int(x.N) >= len(c16Exprs) {
					continue
				}
				g.schedule = c16Exprs[x.N]
				g.expr = cronexpr.MustParse(g.schedule)
				g.never = g.expr.Next(now).IsZero()
			}
			gg := g
			fn := func(t time.Time) error {
				mu.Lock()
				gg.fires = append(gg.fires, time.Now())
				mu.Unlock()
				if gg.never {
					// (must not have fired at all; do not let a firing
					// loop spin at one virtual instant)
					time.Sleep(time.Hour)
				}
				if gg.dur > 0 {
					time.Sleep(gg.dur)
				}
				return nil
			}
			inHarnessCall = true
			err := cr.Add(ctx, x.Id, g.schedule, fn)
			inHarnessCall = false
			if err != nil {
				if g.never {
					// refusing a schedule without a future occurrence
					// is fine (the job of that id, if any, stays)
					o.Label("never-occurring-schedule-refused")
					break
				}
				o.Fail("CRON_ADD_ERROR", "%s: Add failed: %v", when, err)
				break
			}
			mu.Lock()
			if old := current[x.Id]; old != nil && old.removedAt.IsZero() {
				old.removedAt = now
				replaced = true
			}
			current[x.Id] = g
			gens = append(gens, g)
			mu.Unlock()
		case "rem":
			if _, err := cr.Rem(ctx, x.Id); err != nil {
				o.Fail("CRON_REM_ERROR", "%s: Rem failed: %v", when, err)
			}
			mu.Lock()
			if old := current[x.Id]; old != nil && old.removedAt.IsZero() {
				old.removedAt = now
				if old.oneShot && now.Before(old.due) && len(current) > 1 {
					remBeforeDue = true
				}
			}
			delete(current, x.Id)
			mu.Unlock()
		case "sleep":
			time.Sleep(time.Duration(x.N))
		case "suspend":
			cr.Suspend(ctx)
			if suspendedSince == nil {
				t := now
				suspendedSince = &t
				eff := now
				if busyUntil.After(eff) {
					eff = busyUntil
				}
				eff = eff.Add(time.Millisecond)
				suspendEffective = &eff
			}
			time.Sleep(time.Microsecond) // let the loop take the command
		case "resume":
			if suspendEffective != nil {
				if now.After(*suspendEffective) {
					suspendedSure = append(suspendedSure, c16Span{*suspendEffective, now})
				}
				suspendEffective = nil
			}
			cr.Resume(ctx)
			time.Sleep(time.Microsecond)
			if suspendedSince != nil {
				// the command is taken once queued pauses are over
				until := time.Now()
				if busyUntil.After(until) {
					until = busyUntil
				}
				blocked = append(blocked, c16Span{*suspendedSince, until.Add(time.Millisecond)})
				suspendedSince = nil
			}
		case "pause":
			cr.Pause(ctx)
			// the loop sleeps PauseDuration from when it takes the
			// command; commands queue up behind earlier pauses
			start := now
			if busyUntil.After(start) {
				start = busyUntil
			}
			busyUntil = start.Add(c16Pause)
			blocked = append(blocked, c16Span{now, busyUntil.Add(time.Millisecond)})
			time.Sleep(time.Microsecond)
		}
		invariant(when)
		if o.Failed() {
			break
		}
	}
	// let everything that is due fire
	if suspendEffective != nil {
		if t := time.Now(); t.After(*suspendEffective) {
			suspendedSure = append(suspendedSure, c16Span{*suspendEffective, t})
		}
		suspendEffective = nil
	}
	if suspendedSince != nil {
		cr.Resume(ctx)
		time.Sleep(time.Microsecond)
		until := time.Now()
		if busyUntil.After(until) {
			until = busyUntil
		}
		blocked = append(blocked, c16Span{*suspendedSince, until.Add(time.Millisecond)})
	}
	if d := busyUntil.Sub(time.Now()); d > 0 {
		time.Sleep(d)
	}
	time.Sleep(6 * time.Second)
	end := time.Now()
	invariant("at end")
	cr.Kill(ctx)
	time.Sleep(3 * time.Second) // job functions still asleep finish

	if o.Failed() {
		return o
	}
	unblockedFrom := func(t time.Time, d time.Duration) bool {
		// is [t, t+d] free of suspension/pause?
		for _, s := range blocked {
			if s.from.Before(t.Add(d)) && t.Before(s.to) {
				return false
			}
		}
		return true
	}
	mu.Lock()
	defer mu.Unlock()
	hist := func() string {
		var rows []string
		for _, g := range gens {
			var fs []string
			for _, f := range g.fires {
				fs = append(fs, f.Sub(time.Unix(1257894000, 0)).String())
			}
			rem := "never"
			if !g.removedAt.IsZero() {
				rem = g.removedAt.Sub(time.Unix(1257894000, 0)).String()
			}
			rows = append(rows, fmt.Sprintf("gen%d{%s %q added +%v removed %s dur %v fires %v}", g.n, g.id, g.schedule, g.addedAt.Sub(time.Unix(1257894000, 0)), rem, g.dur, fs))
		}
		return fmt.Sprint(rows) + " ops " + vlib.JSON(c.Ops)
	}
	for _, g := range gens {
		sort.Slice(g.fires, func(i, j int) bool { return g.fires[i].Before(g.fires[j]) })
		for _, f := range g.fires {
			for _, sp := range suspendedSure {
				if f.After(sp.from) && f.Before(sp.to) {
					o.Fail("CRON_FIRED_WHILE_SUSPENDED", "gen%d fired at +%v while the cron was suspended (+%v .. +%v); %s", g.n, f.Sub(time.Unix(1257894000, 0)),
						sp.from.Sub(time.Unix(1257894000, 0)), sp.to.Sub(time.Unix(1257894000, 0)), hist())
				}
			}
		}
		if g.oneShot {
			if len(g.fires) > 1 {
				o.Fail("CRON_ONESHOT_TWICE", "one-shot gen%d fired %d times; %s", g.n, len(g.fires), hist())
			}
			for _, f := range g.fires {
				if f.Before(g.due) {
					o.Fail("CRON_EARLY", "gen%d fired at %v before its due time %v; %s", g.n, f, g.due, hist())
				}
				if !g.removedAt.IsZero() && g.removedAt.Before(g.due) {
					o.Fail("CRON_FIRED_AFTER_REMOVAL", "gen%d was removed/replaced at +%v before it was due but fired; %s", g.n, g.removedAt.Sub(time.Unix(1257894000, 0)), hist())
				}
			}
			live := g.removedAt.IsZero() || !g.removedAt.Before(g.due.Add(time.Second))
			if live && len(g.fires) == 0 && g.due.Add(time.Second).Before(end) && unblockedFrom(g.due, time.Second) {
				o.Fail("CRON_ONESHOT_MISSED", "one-shot gen%d (due +%v) never fired although the cron was running for more than a second after it was due; %s", g.n, g.due.Sub(time.Unix(1257894000, 0)), hist())
			}
			continue
		}
		// recurring
		if g.never {
			if len(g.fires) > 0 {
				o.Fail("CRON_FIRED_WITHOUT_OCCURRENCE", "gen%d has the schedule %q, which has no occurrence after it was added, but fired at +%v; %s", g.n, g.schedule, g.fires[0].Sub(time.Unix(1257894000, 0)), hist())
			}
			continue
		}
		prev := g.addedAt
		for k, f := range g.fires {
			occ := g.expr.Next(prev)
			if f.Before(occ) {
				o.Fail("CRON_EARLY", "recurring gen%d fire #%d at +%v is before the next occurrence %v after %v; %s", g.n, k, f.Sub(time.Unix(1257894000, 0)), occ, prev, hist())
			}
			// occurrence this fire belongs to: the last second boundary
			// matching the expression at or before f
			if !g.removedAt.IsZero() {
				lastOcc := occ
				for {
					n := g.expr.Next(lastOcc)
					if n.After(f) {
						break
					}
					lastOcc = n
				}
				if lastOcc.After(g.removedAt) && f.After(g.removedAt) {
					o.Fail("CRON_FIRED_AFTER_REMOVAL", "recurring gen%d fired at +%v for an occurrence after its removal at +%v; %s", g.n, f.Sub(time.Unix(1257894000, 0)), g.removedAt.Sub(time.Unix(1257894000, 0)), hist())
				}
			}
			prev = f.Add(g.dur)
		}
		if g.dur == 0 && c.StretchMs == 0 {
			// once per occurrence while running (a stretched
			// re-scheduling takes time, like a slow job function)
			stop := end
			if !g.removedAt.IsZero() {
				stop = g.removedAt
			}
			for occ := g.expr.Next(g.addedAt); occ.Add(time.Second).Before(stop); occ = g.expr.Next(occ) {
				if !unblockedFrom(occ.Add(-time.Millisecond), time.Second) {
					continue
				}
				n := 0
				for _, f := range g.fires {
					if !f.Before(occ) && f.Before(occ.Add(time.Second)) {
						n++
					}
				}
				if n != 1 {
					o.Fail("CRON_OCCURRENCE_COUNT", "recurring gen%d fired %d times for the occurrence at +%v; %s", g.n, n, occ.Sub(time.Unix(1257894000, 0)), hist())
					break
				}
			}
		}
		if o.Failed() {
			return o
		}
	}
	if remBeforeDue || replaced {
		o.NonTrivial = true
	}
	if len(blocked) > 0 {
		o.Label("suspended-or-paused")
	}
	return o
}

func TestC16Cron(t *testing.T) {
	vlib.Check(t, "C16", genC16, runC16)
}
