package props

// C03 — condition queries follow and/or/not/pattern/code semantics.
//
// Generated query trees over small fact sets (own + one parent location),
// evaluated by Location.Query (one empty incoming binding) or as a rule
// condition (1..3 incoming bindings from an array variable in `when`), and
// compared as a multiset of bindings with a reference evaluator that
// implements the statement of C03 literally.

import (
	"encoding/json"
	"fmt"
	"sort"
	"strings"
	"testing"

	"github.com/Comcast/rulio/core"
	"pgregory.net/rapid"

	"verif/harness/gen"
	"verif/harness/refmatch"
	"verif/harness/vlib"
)

type c03Case struct {
	Facts       []M           `json:"facts"`
	ParentFacts []M           `json:"parentFacts"`
	HasParent   bool          `json:"hasParent"`
	Query       M             `json:"query"`
	Incoming    []interface{} `json:"incoming"` // values for ?x via a rule's when (rule mode) ; nil = Location.Query
	Malformed   bool          `json:"malformed"`
}

type qgen struct {
	t     *rapid.T
	facts []M
	n     int
	// ruleMode: the query is the condition of a rule (which is then a
	// fact of the location itself).
	ruleMode bool
}

func copySet(s map[string]bool) map[string]bool {
	n := map[string]bool{}
	for k := range s {
		n[k] = true
	}
	return n
}

var c03Consts = []interface{}{"x", "y", "z", 1.0, 2.0, true}

func (g *qgen) query(depth int, bound map[string]bool) (M, map[string]bool) {
	g.n++
	l := fmt.Sprintf("q%d", g.n)
	kinds := []string{"pattern", "pattern", "pattern", "code", "empty"}
	if depth > 0 {
		kinds = append(kinds, "and", "and", "or", "or", "not", "not")
	}
	switch rapid.SampledFrom(kinds).Draw(g.t, l+".kind") {
	case "pattern":
		po := gen.PatOpts{Opts: gen.Opts{NoArrayMaps: true}, PropVar: true}
		var p M
		if len(g.facts) > 0 && rapid.IntRange(0, 5).Draw(g.t, l+".derived?") != 0 {
			p = gen.Derive(g.t, po, rapid.SampledFrom(g.facts).Draw(g.t, l+".from"), l+".pat")
		} else {
			p = gen.Pattern(g.t, po, 1, l+".pat")
		}
		if g.ruleMode && len(p) == 1 {
			// In rule mode the rule itself is a fact of the location,
			// and it is full of variable-looking strings.  A pattern
			// that is one property variable at the top matches that
			// fact ({"?z":"?y"}: ?z = "rule", ?y = the rule's body),
			// and what is bound then sends the matcher dependency
			// into unbounded recursion (the known finding
			// matcher-recursion-on-variable-data, see C13).  Such
			// patterns are put under a constant key instead.
			for k := range p {
				if refmatch.IsVar(k) {
					p = M{"c": p}
				}
			}
		}
		nb := copySet(bound)
		vs := map[string]bool{}
		refmatch.Vars(p, vs)
		for v := range vs {
			nb[v] = true
		}
		return M{"pattern": p}, nb
	case "and":
		n := rapid.IntRange(0, 3).Draw(g.t, l+".arity")
		qs := A{}
		b := bound
		for i := 0; i < n; i++ {
			var q M
			q, b = g.query(depth-1, b)
			qs = append(qs, q)
		}
		return M{"and": qs}, b
	case "or":
		n := rapid.IntRange(0, 3).Draw(g.t, l+".arity")
		qs := A{}
		var common map[string]bool
		for i := 0; i < n; i++ {
			q, b := g.query(depth-1, bound)
			qs = append(qs, q)
			if common == nil {
				common = b
			} else {
				for v := range common {
					if !b[v] {
						delete(common, v)
					}
				}
			}
		}
		if common == nil {
			common = copySet(bound)
		}
		m := M{"or": qs}
		if rapid.Bool().Draw(g.t, l+".short") {
			m["shortCircuit"] = true
		}
		return m, common
	case "not":
		q, _ := g.query(depth-1, bound)
		return M{"not": q}, bound
	case "code":
		var bvars []string
		for v := range bound {
			bvars = append(bvars, v)
		}
		sort.Strings(bvars)
		opts := []string{"const"}
		if len(bvars) > 0 {
			opts = append(opts, "eq", "eq", "objvar")
		}
		opts = append(opts, "objconst")
		switch rapid.SampledFrom(opts).Draw(g.t, l+".code") {
		case "const":
			c := rapid.SampledFrom([]string{"true", "false", "null", "undefined", "0", `""`, `"s"`, "1+1", "({})", "[1]"}).Draw(g.t, l+".const")
			keep := !(c == "false" || c == "null" || c == "undefined")
			return M{"code": c, "sem": M{"kind": "const", "keep": keep}}, bound
		case "eq":
			v := rapid.SampledFrom(bvars).Draw(g.t, l+".var")
			val := rapid.SampledFrom(c03Consts).Draw(g.t, l+".val")
			js, _ := json.Marshal(val)
			return M{"code": fmt.Sprintf("%s === %s", v[1:], js), "sem": M{"kind": "eq", "var": v, "val": val}}, bound
		case "objvar":
			v := rapid.SampledFrom(bvars).Draw(g.t, l+".var")
			target := rapid.SampledFrom(gen.Vars).Draw(g.t, l+".target")
			nb := copySet(bound)
			nb[target] = true
			return M{"code": fmt.Sprintf("({%s: %s})", target[1:], v[1:]), "sem": M{"kind": "objvar", "var": v, "target": target}}, nb
		default:
			target := rapid.SampledFrom(gen.Vars).Draw(g.t, l+".target")
			val := rapid.SampledFrom(c03Consts).Draw(g.t, l+".val")
			js, _ := json.Marshal(val)
			nb := copySet(bound)
			nb[target] = true
			return M{"code": fmt.Sprintf("({%s: %s})", target[1:], js), "sem": M{"kind": "objconst", "target": target, "val": val}}, nb
		}
	}
	return M{}, bound
}

func genC03(t *rapid.T) c03Case {
	var c c03Case
	fo := gen.Opts{NoArrayMaps: true, NoMixed: true, NoEmpty: true}
	nf := rapid.IntRange(0, 6).Draw(t, "nfacts")
	for i := 0; i < nf; i++ {
		c.Facts = append(c.Facts, gen.Map(t, fo, 2, fmt.Sprintf("f%d", i)))
	}
	c.HasParent = rapid.IntRange(0, 2).Draw(t, "parent?") == 0
	if c.HasParent {
		np := rapid.IntRange(0, 3).Draw(t, "npfacts")
		for i := 0; i < np; i++ {
			c.ParentFacts = append(c.ParentFacts, gen.Map(t, fo, 2, fmt.Sprintf("pf%d", i)))
		}
	}
	all := append(append([]M{}, c.Facts...), c.ParentFacts...)
	bound := map[string]bool{}
	if rapid.IntRange(0, 2).Draw(t, "ruleMode?") == 0 {
		n := rapid.IntRange(1, 3).Draw(t, "nincoming")
		seen := map[interface{}]bool{}
		pool := []interface{}{"x", "y", "z", "w"}
		if rapid.IntRange(0, 3).Draw(t, "numIncoming?") == 0 {
			pool = []interface{}{0.0, 1.0, 2.0}
		}
		for i := 0; i < n; i++ {
			v := rapid.SampledFrom(pool).Draw(t, "incoming")
			if !seen[v] {
				seen[v] = true
				c.Incoming = append(c.Incoming, v)
			}
		}
		bound["?x"] = true
	}
	if rapid.IntRange(0, 9).Draw(t, "notchain?") == 0 {
		// several candidates go into a `not` whose inside reads the
		// candidate's bindings (another `not`, a script): each
		// candidate is judged by itself
		v1 := rapid.SampledFrom([]string{"x", "y"}).Draw(t, "notchain.v1")
		v2 := "z"
		c.Facts = append(c.Facts, M{"a": v1}, M{"a": v2}, M{"b": v1})
		first := M{"pattern": M{"a": "?x"}}
		var inner M
		switch rapid.IntRange(0, 3).Draw(t, "notchain.form") {
		case 0:
			inner = M{"not": M{"not": M{"pattern": M{"b": "?x"}}}}
		case 1:
			js, _ := json.Marshal(v1)
			inner = M{"not": M{"code": fmt.Sprintf("x === %s", js), "sem": M{"kind": "eq", "var": "?x", "val": v1}}}
		case 2:
			inner = M{"not": M{"and": A{M{"not": M{"pattern": M{"b": "?x"}}}, M{"pattern": M{"a": "?x"}}}}}
		default:
			inner = M{"not": M{"pattern": M{"b": "?x"}}}
		}
		if len(c.Incoming) > 0 {
			c.Query = inner
		} else {
			c.Query = M{"and": A{first, inner}}
		}
		return c
	}
	if rapid.IntRange(0, 9).Draw(t, "propchain?") == 0 {
		// a variable bound by one conjunct and used as a PROPERTY by a
		// later one: {"sel":"?x"} then {"set":{"?x":"?y"}} (optionally
		// under a not), over facts that offer several properties
		k1 := rapid.SampledFrom([]string{"a", "b", "c"}).Draw(t, "propchain.k1")
		k2 := rapid.SampledFrom([]string{"a", "b", "c"}).Draw(t, "propchain.k2")
		c.Facts = append(c.Facts, M{"sel": k1}, M{"set": M{k1: "x", k2: "y", "d": "z"}})
		second := M{"pattern": M{"set": M{"?x": "?y"}}}
		switch rapid.IntRange(0, 2).Draw(t, "propchain.form") {
		case 1:
			second = M{"not": M{"pattern": M{"set": M{"?x": "y"}}}}
		case 2:
			second = M{"pattern": M{"set": M{"?x": "x"}}}
		}
		first := M{"pattern": M{"sel": "?x"}}
		if len(c.Incoming) > 0 {
			// (?x comes from the event)
			c.Query = second
		} else {
			c.Query = M{"and": A{first, second}}
		}
		return c
	}
	if rapid.IntRange(0, 19).Draw(t, "malformed?") == 0 {
		c.Malformed = true
		c.Query = rapid.SampledFrom([]M{
			{"and": M{}}, {"or": A{5.0}}, {"not": A{}}, {"foo": 1.0}, {"and": A{M{"pattern": "nope"}}},
			{"or": A{M{"pattern": M{"a": "x"}}}, "shortCircuit": "yes"}, {"code": 5.0}, {"code": "this is not javascript ("},
			{"not": M{"bar": 1.0}}, {"pattern": A{}},
		}).Draw(t, "badquery")
		return c
	}
	g := &qgen{t: t, facts: all, ruleMode: len(c.Incoming) > 0}
	c.Query, _ = g.query(rapid.IntRange(0, 3).Draw(t, "depth"), bound)
	return c
}

// ---- reference evaluator

type refEval struct {
	facts []M // own + inherited
}

// substValues replaces bound variables (in key position: those bound to strings).
func substValues(p interface{}, b refmatch.Bindings) interface{} {
	switch v := p.(type) {
	case string:
		if refmatch.IsVar(v) {
			if x, have := b[v]; have {
				return x
			}
		}
		return v
	case M:
		n := make(M, len(v))
		for k, y := range v {
			// a variable in key position that is bound to a string is
			// substituted like any other ("substituting that binding")
			if refmatch.IsVar(k) {
				if x, have := b[k]; have {
					if s, ok := x.(string); ok {
						k = s
					}
				}
			}
			n[k] = substValues(y, b)
		}
		return n
	case A:
		n := make(A, len(v))
		for i, y := range v {
			n[i] = substValues(y, b)
		}
		return n
	}
	return p
}

type evalFlags struct {
	lenientDiffers bool
	rebind         bool
	// nullInScript: a script used a variable bound to JSON null.  Whether
	// the script sees null or undefined (the JavaScript bridge passes a Go
	// nil as undefined, which a returned object then omits) is not fixed by
	// the property; such results are not compared.
	nullInScript bool
}

func (r *refEval) eval(q M, bss []refmatch.Bindings, mode refmatch.Mode, fl *evalFlags) []refmatch.Bindings {
	if len(q) == 0 {
		return bss
	}
	if code, ok := q["code"]; ok {
		_ = code
		sem, _ := q["sem"].(M)
		var acc []refmatch.Bindings
		for _, b := range bss {
			switch sem["kind"] {
			case "const":
				if keep, _ := sem["keep"].(bool); keep {
					acc = append(acc, b)
				}
			case "eq":
				v, _ := sem["var"].(string)
				if b[v] == nil && sem["val"] == nil {
					fl.nullInScript = true
				}
				x := refmatch.Canon(b[v])
				if _, isArr := x.([]interface{}); isArr {
					break
				}
				if _, isMap := x.(map[string]interface{}); isMap {
					break
				}
				if refmatch.Equal(x, sem["val"], true) {
					acc = append(acc, b)
				}
			case "objvar":
				v, _ := sem["var"].(string)
				tgt, _ := sem["target"].(string)
				if b[v] == nil {
					fl.nullInScript = true
				}
				n := refmatch.Bindings{}
				for k, y := range b {
					n[k] = y
				}
				n[tgt] = b[v]
				acc = append(acc, n)
			case "objconst":
				tgt, _ := sem["target"].(string)
				n := refmatch.Bindings{}
				for k, y := range b {
					n[k] = y
				}
				n[tgt] = sem["val"]
				acc = append(acc, n)
			}
		}
		return acc
	}
	if p, ok := q["pattern"]; ok {
		pat, _ := p.(M)
		var acc []refmatch.Bindings
		for _, b := range bss {
			bound, _ := substValues(pat, b).(M)
			for _, f := range r.facts {
				res := refmatch.Match(bound, f, nil, mode)
				if res.ContainerRebind {
					fl.rebind = true
				}
				for _, m := range res.Bss {
					n := refmatch.Bindings{}
					for k, y := range b {
						n[k] = y
					}
					for k, y := range m {
						n[k] = y
					}
					acc = append(acc, n)
				}
			}
		}
		return acc
	}
	if a, ok := q["and"]; ok {
		qs, _ := a.(A)
		for _, sub := range qs {
			sq, _ := sub.(M)
			bss = r.eval(sq, bss, mode, fl)
		}
		return bss
	}
	if o, ok := q["or"]; ok {
		qs, _ := o.(A)
		short, _ := q["shortCircuit"].(bool)
		var acc []refmatch.Bindings
		for _, b := range bss {
			for _, sub := range qs {
				sq, _ := sub.(M)
				more := r.eval(sq, []refmatch.Bindings{b}, mode, fl)
				acc = append(acc, more...)
				if short && len(more) > 0 {
					break
				}
			}
		}
		return acc
	}
	if n, ok := q["not"]; ok {
		sq, _ := n.(M)
		var acc []refmatch.Bindings
		for _, b := range bss {
			if len(r.eval(sq, []refmatch.Bindings{b}, mode, fl)) == 0 {
				acc = append(acc, b)
			}
		}
		return acc
	}
	return nil
}

func multiset(bss []refmatch.Bindings) map[string]int {
	m := map[string]int{}
	for _, b := range bss {
		c := refmatch.Bindings{}
		for k, v := range b {
			c[k] = v
		}
		for _, s := range specials {
			delete(c, s)
		}
		m[refmatch.Key(c)]++
	}
	return m
}

func msString(m map[string]int) string {
	ks := make([]string, 0, len(m))
	for k, n := range m {
		ks = append(ks, fmt.Sprintf("%dx%s", n, k))
	}
	sort.Strings(ks)
	return strings.Join(ks, " ")
}

func msEqual(a, b map[string]int) bool {
	if len(a) != len(b) {
		return false
	}
	for k, n := range a {
		if b[k] != n {
			return false
		}
	}
	return true
}

func queryShape(q M, depth int, st *struct{ depth, orNot, emptyAndOr int }) {
	if depth > st.depth {
		st.depth = depth
	}
	if a, ok := q["and"].(A); ok {
		if len(a) == 0 {
			st.emptyAndOr++
		}
		for _, s := range a {
			if m, ok := s.(M); ok {
				queryShape(m, depth+1, st)
			}
		}
	}
	if a, ok := q["or"].(A); ok {
		st.orNot++
		if len(a) == 0 {
			st.emptyAndOr++
		}
		for _, s := range a {
			if m, ok := s.(M); ok {
				queryShape(m, depth+1, st)
			}
		}
	}
	if n, ok := q["not"].(M); ok {
		st.orNot++
		queryShape(n, depth+1, st)
	}
}

func runC03(c c03Case) *vlib.Outcome {
	o := &vlib.Outcome{}
	if c.Query == nil {
		c.Query = M{}
	}
	qjs, _ := json.Marshal(c.Query)
	var shape struct{ depth, orNot, emptyAndOr int }
	queryShape(c.Query, 0, &shape)
	if !c.Malformed && ((shape.depth >= 2 && shape.orNot > 0) || len(c.Incoming) >= 2 || shape.emptyAndOr > 0) {
		o.NonTrivial = true
	}
	for _, kind := range []string{"indexed", "linear"} {
		w := newWorld(kind, nil, o)
		w.open("L")
		for _, f := range c.Facts {
			if r := w.addFact("L", "", f); r.Err != nil {
				o.Discard = true
				return o
			}
		}
		if c.HasParent {
			w.open("P")
			for _, f := range c.ParentFacts {
				if r := w.addFact("P", "", f); r.Err != nil {
					o.Discard = true
					return o
				}
			}
			if err := w.setParents("L", []string{"P"}); err != nil {
				o.Fail("SETPARENTS", "%v", err)
				return o
			}
		}
		// the reference sees every stored fact, including the parents
		// property fact of L
		ref := &refEval{}
		for _, ln := range []string{"P", "L"} {
			if ml, have := w.model[ln]; have {
				ids := make([]string, 0)
				for id := range ml.Items {
					ids = append(ids, id)
				}
				sort.Strings(ids)
				for _, id := range ids {
					ref.facts = append(ref.facts, ml.Items[id].Stored)
				}
			}
		}
		when := fmt.Sprintf("[%s] facts %s parent %s query %s incoming %s", kind, vlib.JSON(c.Facts), vlib.JSON(c.ParentFacts), qjs, vlib.JSON(c.Incoming))

		if c.Malformed {
			qr, err := w.locs["L"].Query(newCtx(), string(qjs))
			if err == nil {
				o.Fail("MALFORMED_QUERY_ACCEPTED", "%s: a malformed query returned a result %v instead of an error", when, qr)
				return o
			}
			o.Label("malformed-rejected")
			continue
		}

		compare := func(incoming refmatch.Bindings, got []refmatch.Bindings, what string) {
			fl := &evalFlags{}
			strict := multiset(ref.eval(c.Query, []refmatch.Bindings{incoming}, refmatch.Strict, fl))
			lenient := multiset(ref.eval(c.Query, []refmatch.Bindings{incoming}, refmatch.Lenient, fl))
			g := multiset(got)
			if fl.nullInScript {
				o.Label("null-binding-in-script")
				return
			}
			if !msEqual(strict, lenient) {
				// the array readings differ: accept either
				o.Label("strict!=lenient")
				if msEqual(g, lenient) || msEqual(g, strict) {
					return
				}
				return // not decidable without taking sides
			}
			if len(strict) > 0 {
				o.Label("nonempty-result")
			}
			if !msEqual(g, strict) {
				if fl.rebind && vlib.KnownActive("matcher-bound-container-var-is-pattern") {
					o.Known = append(o.Known, "matcher-bound-container-var-is-pattern")
					return
				}
				o.Fail("QUERY_RESULT", "%s: %s returned {%s}; reference {%s}", when, what, msString(g), msString(strict))
			}
		}

		if c.Incoming == nil {
			qr, err := w.locs["L"].Query(newCtx(), string(qjs))
			if err != nil {
				if isRefusal(err) {
					o.Label("refused-no-terms")
					continue
				}
				// a script that reads a null-bound variable sees it as
				// undefined and binds nothing, so that a later script may
				// meet an undefined variable: not specified (see evalFlags)
				fl := &evalFlags{}
				ref.eval(c.Query, []refmatch.Bindings{{}}, refmatch.Strict, fl)
				ref.eval(c.Query, []refmatch.Bindings{{}}, refmatch.Lenient, fl)
				if fl.nullInScript {
					o.Label("null-binding-in-script")
					continue
				}
				o.Fail("QUERY_ERROR", "%s: Query failed: %v", when, err)
				return o
			}
			compare(refmatch.Bindings{}, toRefBindings(qr.Bss), "Location.Query")
		} else {
			rule := M{"when": M{"pattern": M{"e": A{"?x"}}}, "condition": gen.CopyMap(c.Query), "action": M{"code": "'fired'"}}
			if r := w.addRule("L", "qrule", rule); r.Err != nil {
				o.Fail("ADDRULE_ERROR", "%s: AddRule with this condition failed: %v", when, r.Err)
				return o
			}
			// the rule is now a stored fact too
			ref.facts = append(ref.facts, w.model["L"].Items["qrule"].Stored)
			work, cond := w.locs["L"].ProcessEvent(newCtx(), core.Map{"e": gen.DeepCopy(A(c.Incoming))})
			if cond != nil {
				if strings.Contains(cond.Msg, "No terms given") {
					o.Label("refused-no-terms")
					continue
				}
				o.Fail("EVENT_ERROR", "%s: ProcessEvent failed: %s", when, cond.Msg)
				return o
			}
			if len(work.Children) != 1 {
				o.Fail("RULE_NOT_DISPATCHED", "%s: expected the one rule to be dispatched, got %d", when, len(work.Children))
				return o
			}
			seen := map[string]bool{}
			for _, erc := range work.Children[0].Children {
				in := refmatch.Bindings{}
				for k, v := range erc.Bindings {
					in[k] = v
				}
				for _, s := range specials {
					delete(in, s)
				}
				seen[refmatch.Key(in)] = true
				var got []refmatch.Bindings
				for _, era := range erc.Children {
					got = append(got, refmatch.Bindings(era.Bindings))
				}
				compare(in, got, "rule condition with incoming "+refmatch.Key(in))
			}
			if len(seen) != len(c.Incoming) {
				o.Fail("INCOMING_BINDINGS", "%s: expected %d incoming bindings, the condition was evaluated for %v", when, len(c.Incoming), sortedKeys(seen))
			}
			o.Label("rule-condition")
		}
		if o.Failed() {
			return o
		}
	}
	return o
}

func TestC03(t *testing.T) {
	vlib.Check(t, "C03", genC03, runC03)
}

func FuzzC03(f *testing.F) { vlib.Fuzz(f, "C03", genC03, runC03) }
