package props

// C15 — scheduled rules are registered with the cron service exactly while
// they exist, run per location, and never after removal.
//
// Part 1 (real code, recording cron): histories of adding / overwriting /
// removing / cascade-deleting / clearing scheduled and ordinary rules across
// 2-3 locations that share rule ids, interleaved with ticks delivered by the
// harness; persistent and ephemeral cron; both states.

import (
	"encoding/json"
	"fmt"
	"sort"
	"strings"
	"sync"
	"testing"

	"github.com/Comcast/rulio/core"
	"github.com/Comcast/rulio/cron"
	"pgregory.net/rapid"

	"verif/harness/vlib"
)

// recCron is a cron.Cronner that records registrations keyed by
// (location, id); the harness decides when ticks happen.
type recCron struct {
	sync.Mutex
	persistent bool
	jobs       map[string]*cron.ScheduledEvent // "loc/id"
	log        []string
}

func newRecCron(persistent bool) *recCron {
	return &recCron{persistent: persistent, jobs: map[string]*cron.ScheduledEvent{}}
}

func (r *recCron) key(ctx *core.Context, id string) string {
	name := "?"
	if l := ctx.Location(); l != nil {
		name = l.Name
	}
	return name + "/" + id
}

func (r *recCron) ScheduleEvent(ctx *core.Context, se *cron.ScheduledEvent) error {
	r.Lock()
	defer r.Unlock()
	c := *se
	r.jobs[r.key(ctx, se.Id)] = &c
	r.log = append(r.log, "schedule "+r.key(ctx, se.Id))
	return nil
}

func (r *recCron) Schedule(ctx *core.Context, sw *cron.ScheduledWork) error { return nil }

func (r *recCron) Rem(ctx *core.Context, id string) (bool, error) {
	r.Lock()
	defer r.Unlock()
	k := r.key(ctx, id)
	_, had := r.jobs[k]
	delete(r.jobs, k)
	r.log = append(r.log, "rem "+k)
	return had, nil
}

func (r *recCron) Persistent() bool { return r.persistent }

func (r *recCron) keys() []string {
	r.Lock()
	defer r.Unlock()
	ks := make([]string, 0, len(r.jobs))
	for k := range r.jobs {
		ks = append(ks, k)
	}
	sort.Strings(ks)
	return ks
}

type c15Case struct {
	Kind       string `json:"kind"`
	Persistent bool   `json:"persistent"`
	NLocs      int    `json:"nlocs"`
	Ops        []op   `json:"ops"`
}

var c15Locs = []string{"A", "B", "C"}
var c15Scheds = []string{"+30m", "+1h", "!2100-01-01T00:00:00Z", "0 0 3 * * * *", "*/5 * * * * * *", " +30m", "\t!2100-01-01T00:00:00Z ", " 0 0 3 * * * *"}

// c15OneShot: what the cron services take for a one-shot schedule (they
// trim the schedule first).
func c15OneShot(schedule string) bool {
	s := strings.TrimSpace(schedule)
	return strings.HasPrefix(s, "+") || strings.HasPrefix(s, "!")
}

func genC15(t *rapid.T) c15Case {
	var c c15Case
	c.Kind = rapid.SampledFrom([]string{"indexed", "linear"}).Draw(t, "kind")
	c.Persistent = rapid.Bool().Draw(t, "persistent")
	c.NLocs = rapid.IntRange(2, 3).Draw(t, "nlocs")
	n := rapid.IntRange(2, 18).Draw(t, "nops")
	ids := []string{"s1", "s2"}
	for i := 0; i < n; i++ {
		l := fmt.Sprintf("op%d", i)
		loc := c15Locs[rapid.IntRange(0, c.NLocs-1).Draw(t, l+".loc")]
		id := rapid.SampledFrom(ids).Draw(t, l+".id")
		if rapid.IntRange(0, 7).Draw(t, l+".oddid?") == 0 {
			// ids that need quoting wherever they are put into JSON
			id = rapid.SampledFrom([]string{`s"3`, `s\4`, `s\"5`, `s 6`}).Draw(t, l+".oddid")
		}
		switch rapid.SampledFrom([]string{"sched", "sched", "sched", "sched", "rule", "fact", "rem", "rem", "anchor", "remAnchor", "clear", "reload", "tick", "tick", "tick", "disable", "enable", "delete"}).Draw(t, l+".kind") {
		case "disable", "enable":
			c.Ops = append(c.Ops, op{K: "enable", Loc: loc, Id: id, B: rapid.Bool().Draw(t, l+".on")})
		case "sched":
			x := op{K: "sched", Loc: loc, Id: id, N: int64(rapid.IntRange(0, len(c15Scheds)-1).Draw(t, l+".sched"))}
			if rapid.IntRange(0, 2).Draw(t, l+".dw?") == 0 {
				x.L = []string{"anchor"}
			}
			c.Ops = append(c.Ops, x)
		case "rule":
			c.Ops = append(c.Ops, op{K: "rule", Loc: loc, Id: id})
		case "fact":
			c.Ops = append(c.Ops, op{K: "fact", Loc: loc, Id: id})
		case "rem":
			c.Ops = append(c.Ops, op{K: "remRule", Loc: loc, Id: id})
		case "anchor":
			c.Ops = append(c.Ops, op{K: "anchor", Loc: loc})
		case "remAnchor":
			c.Ops = append(c.Ops, op{K: "remAnchor", Loc: loc})
		case "clear":
			if rapid.IntRange(0, 1).Draw(t, l+".really") == 0 {
				c.Ops = append(c.Ops, op{K: "clear", Loc: loc})
			}
		case "delete":
			if rapid.IntRange(0, 1).Draw(t, l+".really") == 0 {
				c.Ops = append(c.Ops, op{K: "delete", Loc: loc})
			}
		case "reload":
			c.Ops = append(c.Ops, op{K: "reload", Loc: loc})
		case "tick":
			c.Ops = append(c.Ops, op{K: "tick", Loc: loc, Id: id})
		}
	}
	return c
}

// expectedJobs lists (loc/id) of the model's live scheduled rules.
func expectedJobs(w *world) []string {
	var ks []string
	for ln, ml := range w.model {
		for id, it := range ml.Items {
			if it.IsRule && it.Schedule != "" && ml.specified(id) {
				ks = append(ks, ln+"/"+id)
			}
		}
	}
	sort.Strings(ks)
	return ks
}

func runC15(c c15Case) *vlib.Outcome {
	o := &vlib.Outcome{}
	if c.NLocs < 1 || c.NLocs > 3 || (c.Kind != "indexed" && c.Kind != "linear") {
		o.Discard = true
		return o
	}
	rc := newRecCron(c.Persistent)
	w := newWorld(c.Kind, nil, o)
	w.hooks = func(st core.State) { cron.AddHooks(newCtx(), rc, st) }
	for i := 0; i < c.NLocs; i++ {
		w.open(c15Locs[i])
	}
	sharedId, removedThenTick := false, false
	// loc/id of scheduled rules deleted as a deleteWith dependent (known
	// finding: the rem hook is bypassed there)
	goneSched := map[string]bool{}
	everSched := map[string]bool{}
	tagOf := map[string]string{}
	check := func(when string) {
		got, want := rc.keys(), expectedJobs(w)
		if strings.Join(got, ",") == strings.Join(want, ",") {
			return
		}
		// classify against the known findings
		extra := diffList(got, want)
		missing := diffList(want, got)
		if len(missing) == 0 {
			allKnown := true
			for _, k := range extra {
				if !goneSched[k] {
					allKnown = false
				}
			}
			if allKnown && vlib.KnownActive("cron-job-left-registered") {
				o.Known = append(o.Known, "cron-job-left-registered")
				return
			}
		}
		o.Fail("CRON_REGISTRATION", "%s: registered cron jobs %v; live scheduled rules %v (cron log: %v)", when, got, want, rc.log)
	}
	for i, x := range c.Ops {
		if _, have := w.locs[x.Loc]; !have {
			continue
		}
		when := fmt.Sprintf("[%s persistent=%v] op %d %s", c.Kind, c.Persistent, i, vlib.JSON(x))
		ml := w.model[x.Loc]
		key := x.Loc + "/" + x.Id
		wasSched := func(id string) bool {
			it, have := ml.Items[id]
			return have && it.IsRule && it.Schedule != ""
		}
		switch x.K {
		case "sched":
			if x.N < 0 || int(x.N) >= len(c15Scheds) {
				continue
			}
			tag := fmt.Sprintf("%s/%s/g%d", x.Loc, x.Id, i)
			// the action reports the location and rule id it sees
			rule := M{"schedule": c15Scheds[x.N], "action": M{"code": vlib.JSON(tag) + " + '@' + location + '#' + ruleId"}}
			if len(x.L) > 0 {
				rule["deleteWith"] = toA(x.L)
			}
			if r := w.addRule(x.Loc, x.Id, rule); r.Err != nil {
				o.Fail("ADDRULE_ERROR", "%s: AddRule failed: %v", when, r.Err)
			} else {
				tagOf[key] = tag
				everSched[key] = true
				delete(goneSched, key)
				for _, other := range c15Locs[:c.NLocs] {
					if other != x.Loc {
						if it, have := w.model[other].Items[x.Id]; have && it.Schedule != "" {
							sharedId = true
						}
					}
				}
			}
		case "rule":
			was := wasSched(x.Id)
			if r := w.addRule(x.Loc, x.Id, mkRule(M{"a": "x"}, "ordinary")); r.Err != nil {
				o.Fail("ADDRULE_ERROR", "%s: AddRule failed: %v", when, r.Err)
			} else if was {
				o.Label("scheduled-overwritten")
			}
		case "fact":
			was := wasSched(x.Id)
			if r := w.addFact(x.Loc, x.Id, M{"plain": "fact"}); r.Err != nil {
				o.Fail("ADD_ERROR", "%s: AddFact failed: %v", when, r.Err)
			} else if was {
				o.Label("scheduled-overwritten")
			}
		case "enable":
			_, flagged := ml.Items[propId(x.Id, "disabled")]
			if r := w.enableRule(x.Loc, x.Id, x.B); r.Err != nil && (flagged || !x.B) {
				// (with the cron hooks installed, removing a flag that
				// is not there reports not-found; that is accepted)
				o.Fail("ENABLE_ERROR", "%s: EnableRule failed: %v", when, r.Err)
			}
		case "remRule":
			if r := w.remRule(x.Loc, x.Id); r.Err != nil {
				// the rem hook fails for an id that is not there
				if _, have := ml.Items[x.Id]; have {
					o.Fail("REMRULE_ERROR", "%s: RemRule failed: %v", when, r.Err)
				}
			}
		case "anchor":
			if r := w.addFact(x.Loc, "anchor", M{"anchor": "yes"}); r.Err != nil {
				o.Fail("ADD_ERROR", "%s: AddFact failed: %v", when, r.Err)
			}
		case "remAnchor":
			_, have := ml.Items["anchor"]
			for id := range ml.Items {
				if it, h := ml.Items[id]; h && have && it.Schedule != "" {
					for _, d := range it.DeleteWith {
						if d == "anchor" {
							goneSched[x.Loc+"/"+id] = true
						}
					}
				}
			}
			if r := w.remFact(x.Loc, "anchor"); r.Err != nil && have {
				o.Fail("REM_ERROR", "%s: RemFact failed: %v", when, r.Err)
			}
		case "clear":
			if err := w.clear(x.Loc); err != nil {
				o.Fail("CLEAR_ERROR", "%s: Clear failed: %v", when, err)
			}
		case "delete":
			// deleting the location (what DeleteLocation does)
			if err := w.locs[x.Loc].Delete(newCtx()); err != nil {
				o.Fail("DELETE_ERROR", "%s: Delete failed: %v", when, err)
			} else {
				ml.clear()
				o.Label("delete")
			}
		case "reload":
			if c.Persistent {
				if err := w.reload(x.Loc); err != nil {
					o.Fail("RELOAD", "%s: %v", when, err)
				}
			} else {
				// an ephemeral cron loses its jobs with the process:
				// restart everything
				rc.Lock()
				rc.jobs = map[string]*cron.ScheduledEvent{}
				rc.log = append(rc.log, "restart")
				rc.Unlock()
				goneSched = map[string]bool{}
				for j := 0; j < c.NLocs; j++ {
					if err := w.reload(c15Locs[j]); err != nil {
						o.Fail("RELOAD", "%s: %v", when, err)
					}
				}
			}
		case "tick":
			it, live := ml.Items[x.Id]
			live = live && it.IsRule && it.Schedule != "" && ml.specified(x.Id)
			switch ml.ruleDisabled(x.Id) {
			case 1:
				if live {
					o.Label("tick-of-disabled-rule")
				}
				live = false // a disabled rule does not run
			case 2:
				break // flag unspecified: skip this tick's verdict
			}
			if ml.ruleDisabled(x.Id) == 2 {
				continue
			}
			if !live && everSched[key] {
				removedThenTick = true
			}
			tctx := newCtx()
			tctx.SetLoc(w.locs[x.Loc])
			// the tick delivers the event the rule was registered with
			event := core.Map{"trigger!": x.Id}
			rc.Lock()
			job := rc.jobs[key]
			rc.Unlock()
			if job != nil {
				var ev map[string]interface{}
				if err := json.Unmarshal([]byte(job.Event), &ev); err != nil {
					o.Fail("TICK_EVENT_MALFORMED", "%s: the event registered for %s is not JSON: %q (%v)", when, key, job.Event, err)
					return o
				}
				event = core.Map(ev)
				o.Label("tick-of-registered-job")
			}
			work, cond := w.locs[x.Loc].ProcessEvent(tctx, event)
			var vals []string
			if work != nil {
				for _, v := range work.Values {
					vals = append(vals, fmt.Sprint(v))
				}
			}
			if live {
				wantVal := tagOf[key] + "@" + x.Loc + "#" + x.Id
				if cond != nil || len(vals) != 1 || vals[0] != wantVal {
					o.Fail("TICK_DID_NOT_RUN", "%s: the tick of live scheduled rule %s should run exactly that rule, in its location and under its id (value %q); got values %v, condition %v", when, key, wantVal, vals, cond)
				}
				if c15OneShot(it.Schedule) {
					// a one-shot rule is deleted after it ran
					ml.rem(x.Id)
					ml.rem(propId(x.Id, "disabled"))
					o.Label("one-shot-ran")
				}
			} else if len(vals) > 0 {
				o.Fail("TICK_RAN_DEAD_RULE", "%s: a tick for %s, which is not a live scheduled rule, produced values %v", when, key, vals)
			}
		}
		if o.Failed() {
			return o
		}
		check(when)
		if o.Failed() {
			return o
		}
	}
	if sharedId || removedThenTick {
		o.NonTrivial = true
	}
	if sharedId {
		o.Label("shared-id")
	}
	if removedThenTick {
		o.Label("removed-then-tick")
	}
	return o
}

func diffList(a, b []string) []string {
	in := map[string]bool{}
	for _, x := range b {
		in[x] = true
	}
	var d []string
	for _, x := range a {
		if !in[x] {
			d = append(d, x)
		}
	}
	return d
}

func TestC15(t *testing.T) {
	vlib.Check(t, "C15", genC15, runC15)
}
