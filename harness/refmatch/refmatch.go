// Package refmatch is a brute-force reference implementation of rulio's
// documented pattern matching ("a set of bindings is a map from variables to
// values that, when applied to the pattern, result in a literal subset
// match"), written independently of github.com/Comcast/sheens/match.
//
// Values are JSON values: nil, bool, float64, string, []interface{},
// map[string]interface{}.
package refmatch

import (
	"encoding/json"
	"reflect"
	"sort"
	"strings"
)

type Bindings = map[string]interface{}

// Mode selects how a pattern array is laid over a data array.
type Mode int

const (
	// Strict: pattern elements are laid over *distinct* data elements
	// (scalar duplicates in the data collapse, as in a set).
	Strict Mode = iota
	// Lenient: plain set inclusion after substitution (two pattern
	// elements may be matched by the same data element).
	Lenient
)

func IsVar(x interface{}) bool {
	s, ok := x.(string)
	return ok && strings.HasPrefix(s, "?")
}

// IsOptionalVar: "??x" as the value of a map entry makes the entry optional
// (if the key is there, the variable is bound as usual).
func IsOptionalVar(x interface{}) bool {
	s, ok := x.(string)
	return ok && strings.HasPrefix(s, "??")
}

func isScalar(x interface{}) bool {
	if _, ok := Num(x); ok {
		return true
	}
	switch x.(type) {
	case nil, bool, float64, string:
		return true
	}
	return false
}

// Num normalises Go numbers to float64 (JSON has only floats).
func Num(x interface{}) (float64, bool) {
	switch v := x.(type) {
	case float64:
		return v, true
	case float32:
		return float64(v), true
	case int:
		return float64(v), true
	case int64:
		return float64(v), true
	case int32:
		return float64(v), true
	case uint64:
		return float64(v), true
	case uint32:
		return float64(v), true
	case int16:
		return float64(v), true
	case int8:
		return float64(v), true
	case uint16:
		return float64(v), true
	case uint8:
		return float64(v), true
	}
	return 0, false
}

// Equal is deep equality of JSON values; numbers by value, maps by key set
// and values.  Arrays compare element-wise in order when ordered is true and
// as sets (mutual inclusion) otherwise.
func Equal(a, b interface{}, ordered bool) bool {
	if fa, ok := Num(a); ok {
		fb, ok := Num(b)
		return ok && fa == fb
	}
	switch va := a.(type) {
	case nil:
		return b == nil
	case bool:
		vb, ok := b.(bool)
		return ok && va == vb
	case string:
		vb, ok := b.(string)
		return ok && va == vb
	case map[string]interface{}:
		vb, ok := b.(map[string]interface{})
		if !ok || len(va) != len(vb) {
			return false
		}
		for k, x := range va {
			y, have := vb[k]
			if !have || !Equal(x, y, ordered) {
				return false
			}
		}
		return true
	case []interface{}:
		vb, ok := b.([]interface{})
		if !ok {
			return false
		}
		if ordered {
			if len(va) != len(vb) {
				return false
			}
			for i := range va {
				if !Equal(va[i], vb[i], true) {
					return false
				}
			}
			return true
		}
		return subsetEq(va, vb) && subsetEq(vb, va)
	}
	return false
}

func subsetEq(xs, ys []interface{}) bool {
	for _, x := range xs {
		found := false
		for _, y := range ys {
			if Equal(x, y, false) {
				found = true
				break
			}
		}
		if !found {
			return false
		}
	}
	return true
}

// Result of a reference match.
type Result struct {
	Bss []Bindings
	// ContainerRebind is set when a variable that was already bound to a
	// container value (map or array) was compared with another data value.
	// (The matcher dependency treats the bound value as a *pattern* there.)
	ContainerRebind bool
	// PropVar is set when a property variable was used.
	PropVar bool
	// Optional is set when an optional field was skipped.
	Optional bool
}

type matcher struct {
	mode            Mode
	containerRebind bool
	propVar         bool
	optional        bool
}

// Match returns every binding set (extending init) under which the pattern
// is a partial match of the data.
func Match(pattern, data interface{}, init Bindings, mode Mode) Result {
	m := &matcher{mode: mode}
	b := Bindings{}
	for k, v := range init {
		b[k] = v
	}
	bss := m.match(pattern, data, b)
	return Result{Bss: Dedup(bss), ContainerRebind: m.containerRebind, PropVar: m.propVar, Optional: m.optional}
}

func cp(b Bindings) Bindings {
	n := make(Bindings, len(b)+1)
	for k, v := range b {
		n[k] = v
	}
	return n
}

func (m *matcher) match(p, d interface{}, b Bindings) []Bindings {
	if IsVar(p) {
		v := p.(string)
		if bound, have := b[v]; have {
			if !isScalar(bound) || !isScalar(d) {
				m.containerRebind = true
			}
			if Equal(bound, d, false) {
				return []Bindings{b}
			}
			return nil
		}
		n := cp(b)
		n[v] = d
		return []Bindings{n}
	}
	if _, ok := Num(p); ok {
		if Equal(p, d, true) {
			return []Bindings{b}
		}
		return nil
	}
	switch pv := p.(type) {
	case nil, bool, string:
		if isScalar(d) && Equal(p, d, true) {
			return []Bindings{b}
		}
		return nil
	case map[string]interface{}:
		dm, ok := d.(map[string]interface{})
		if !ok {
			return nil
		}
		keys := make([]string, 0, len(pv))
		for k := range pv {
			keys = append(keys, k)
		}
		sort.Strings(keys)
		if len(keys) == 1 && IsVar(keys[0]) {
			m.propVar = true
			var acc []Bindings
			dkeys := make([]string, 0, len(dm))
			for k := range dm {
				dkeys = append(dkeys, k)
			}
			sort.Strings(dkeys)
			for _, dk := range dkeys {
				for _, b1 := range m.match(keys[0], dk, b) {
					acc = append(acc, m.match(pv[keys[0]], dm[dk], b1)...)
				}
			}
			return acc
		}
		bss := []Bindings{b}
		for _, k := range keys {
			dv, have := dm[k]
			if !have {
				if IsOptionalVar(pv[k]) {
					// an optional field that is not there
					m.optional = true
					continue
				}
				return nil
			}
			var next []Bindings
			for _, b1 := range bss {
				next = append(next, m.match(pv[k], dv, b1)...)
			}
			bss = next
			if len(bss) == 0 {
				return nil
			}
		}
		return bss
	case []interface{}:
		da, ok := d.([]interface{})
		if !ok {
			return nil
		}
		// The data array is a set: collapse duplicates.
		var ds []interface{}
		for _, x := range da {
			dup := false
			if isScalar(x) {
				for _, y := range ds {
					if isScalar(y) && Equal(x, y, true) {
						dup = true
						break
					}
				}
			}
			if !dup {
				ds = append(ds, x)
			}
		}
		used := make([]bool, len(ds))
		return m.assign(pv, 0, ds, used, b)
	}
	return nil
}

// assign lays pattern elements pv[i:] over data elements.
func (m *matcher) assign(pv []interface{}, i int, ds []interface{}, used []bool, b Bindings) []Bindings {
	if i == len(pv) {
		return []Bindings{b}
	}
	var acc []Bindings
	for j, d := range ds {
		if m.mode == Strict && used[j] {
			continue
		}
		for _, b1 := range m.match(pv[i], d, b) {
			was := used[j]
			used[j] = true
			acc = append(acc, m.assign(pv, i+1, ds, used, b1)...)
			used[j] = was
		}
	}
	return acc
}

// Key is a canonical string for a binding set (encoding/json sorts map keys).
func Key(b Bindings) string {
	bs, _ := json.Marshal(canon(b))
	return string(bs)
}

// canon sorts arrays of scalars so that set-equal bindings compare equal;
// numbers are normalised to float64.
func canon(x interface{}) interface{} {
	if f, ok := Num(x); ok {
		return f
	}
	switch v := x.(type) {
	case map[string]interface{}:
		n := make(map[string]interface{}, len(v))
		for k, y := range v {
			n[k] = canon(y)
		}
		return n
	case []interface{}:
		// arrays are sets: order canonically by the elements' JSON
		n := make([]interface{}, len(v))
		keys := make([]string, len(v))
		for i, y := range v {
			n[i] = canon(y)
			bs, _ := json.Marshal(n[i])
			keys[i] = string(bs)
		}
		sort.Sort(&byKey{keys, n})
		return n
	case []string:
		n := make([]interface{}, len(v))
		for i, y := range v {
			n[i] = y
		}
		return canon(n)
	case nil, bool, string:
		return x
	}
	// other Go-typed slices/maps (e.g. []float64, []int64 exported by the
	// JavaScript runtime)
	rv := reflect.ValueOf(x)
	switch rv.Kind() {
	case reflect.Slice:
		n := make([]interface{}, rv.Len())
		for i := range n {
			n[i] = rv.Index(i).Interface()
		}
		return canon(n)
	case reflect.Map:
		if rv.Type().Key().Kind() == reflect.String {
			n := make(map[string]interface{}, rv.Len())
			for _, k := range rv.MapKeys() {
				n[k.String()] = rv.MapIndex(k).Interface()
			}
			return canon(n)
		}
	}
	return x
}

// Canon exposes the canonical form (numbers as float64, arrays as sorted
// sets, Go-typed containers as JSON containers).
func Canon(x interface{}) interface{} { return canon(x) }

type byKey struct {
	keys []string
	vals []interface{}
}

func (b *byKey) Len() int           { return len(b.keys) }
func (b *byKey) Less(i, j int) bool { return b.keys[i] < b.keys[j] }
func (b *byKey) Swap(i, j int) {
	b.keys[i], b.keys[j] = b.keys[j], b.keys[i]
	b.vals[i], b.vals[j] = b.vals[j], b.vals[i]
}

// Dedup removes duplicate binding sets.
func Dedup(bss []Bindings) []Bindings {
	seen := map[string]bool{}
	var acc []Bindings
	for _, b := range bss {
		k := Key(b)
		if !seen[k] {
			seen[k] = true
			acc = append(acc, b)
		}
	}
	return acc
}

// KeySet returns the set of canonical keys.
func KeySet(bss []Bindings) map[string]bool {
	s := map[string]bool{}
	for _, b := range bss {
		s[Key(b)] = true
	}
	return s
}

// Subst replaces bound variables in the pattern.
func Subst(p interface{}, b Bindings) interface{} {
	switch v := p.(type) {
	case string:
		if IsVar(v) {
			if x, have := b[v]; have {
				return x
			}
		}
		return v
	case map[string]interface{}:
		n := make(map[string]interface{}, len(v))
		for k, y := range v {
			if IsVar(k) {
				if x, have := b[k]; have {
					if s, ok := x.(string); ok {
						k = s
					}
				}
			}
			if IsOptionalVar(y) {
				if _, bound := b[y.(string)]; !bound {
					continue // an optional field that was not there
				}
			}
			n[k] = Subst(y, b)
		}
		return n
	case []interface{}:
		n := make([]interface{}, len(v))
		for i, y := range v {
			n[i] = Subst(y, b)
		}
		return n
	}
	return p
}

// Included reports whether the ground value p is a literal partial (subset)
// match of d: maps may have extra keys, arrays are sets that may have extra
// elements.
func Included(p, d interface{}) bool {
	if _, ok := Num(p); ok {
		return Equal(p, d, true)
	}
	switch pv := p.(type) {
	case nil, bool, string:
		return isScalar(d) && Equal(p, d, true)
	case map[string]interface{}:
		dm, ok := d.(map[string]interface{})
		if !ok {
			return false
		}
		for k, x := range pv {
			y, have := dm[k]
			if !have || !Included(x, y) {
				return false
			}
		}
		return true
	case []interface{}:
		da, ok := d.([]interface{})
		if !ok {
			return false
		}
		for _, x := range pv {
			found := false
			for _, y := range da {
				if Included(x, y) {
					found = true
					break
				}
			}
			if !found {
				return false
			}
		}
		return true
	}
	return false
}

// Vars collects the variables of a pattern (keys included).
func Vars(p interface{}, acc map[string]bool) {
	switch v := p.(type) {
	case string:
		if IsVar(v) {
			acc[v] = true
		}
	case map[string]interface{}:
		for k, y := range v {
			if IsVar(k) {
				acc[k] = true
			}
			Vars(y, acc)
		}
	case []interface{}:
		for _, y := range v {
			Vars(y, acc)
		}
	}
}
