// Package gen holds the shared rapid generators for JSON values, facts,
// events and patterns.  Alphabets are deliberately tiny so that distinct
// draws collide (overwrites, re-adds, near-matches are the norm).
//
// All randomness comes from the *rapid.T that is passed in, so every case
// shrinks and replays.
package gen

import (
	"fmt"
	"sort"
	"strings"

	"pgregory.net/rapid"
)

type M = map[string]interface{}
type A = []interface{}

var (
	Keys        = []string{"a", "b", "c", "d"}
	HostileKeys = []string{"rule", "when", "pattern", "schedule", "expires", "ttl", "deleteWith", "id", "_id", "x!", "S_a", "null"}
	Strings     = []string{"x", "y", "z", "w"}
	HostileStr  = []string{"S_x", "F_1", "B_true", "null", "", "a", "true", "1"}
	Numbers     = []float64{0, 1, 2, -1, 1.5, 1000}
	Vars        = []string{"?x", "?y", "?z"}
)

// Opts tunes the generators.
type Opts struct {
	// Hostile adds reserved-prefix strings, empty string, the string
	// "null", keys that look like index-internal terms.
	Hostile bool
	// HostileKeys adds reserved keys (rule, ttl, expires, ...) — only for
	// totality checks; they change the meaning of a fact.
	HostileKeys bool
	// NoNull leaves JSON null out.
	NoNull bool
	// NoNumbers / NoBools restrict scalars (term-indexed searches only
	// index strings).
	NoNumbers bool
	NoBools   bool
	// NoEmpty leaves out empty maps and arrays.
	NoEmpty bool
	// NoArrays leaves arrays out; NoArrayMaps leaves maps out of arrays.
	NoArrays    bool
	NoArrayMaps bool
	// NoMixed leaves out heterogeneous arrays (the pattern index documents
	// that it cannot sort them).
	NoMixed bool
	// LongString allows one string longer than 1024 bytes.
	LongString bool
	// MaxKeys, MaxElems bound container sizes (default 3).
	MaxKeys, MaxElems int
}

func (o Opts) maxKeys() int {
	if o.MaxKeys > 0 {
		return o.MaxKeys
	}
	return 3
}

func (o Opts) maxElems() int {
	if o.MaxElems > 0 {
		return o.MaxElems
	}
	return 3
}

var longString = strings.Repeat("L", 1100)

// Scalar draws a JSON scalar.
func Scalar(t *rapid.T, o Opts, label string) interface{} {
	kinds := []string{"s", "s", "s"}
	if !o.NoNumbers {
		kinds = append(kinds, "n", "n")
	}
	if !o.NoBools {
		kinds = append(kinds, "b")
	}
	if !o.NoNull {
		kinds = append(kinds, "null")
	}
	switch rapid.SampledFrom(kinds).Draw(t, label+".kind") {
	case "s":
		return String(t, o, label)
	case "n":
		return rapid.SampledFrom(Numbers).Draw(t, label+".num")
	case "b":
		return rapid.Bool().Draw(t, label+".bool")
	}
	return nil
}

// String draws a constant string (never a variable).
func String(t *rapid.T, o Opts, label string) string {
	pool := Strings
	if o.Hostile {
		pool = append(append([]string{}, Strings...), HostileStr...)
		if o.LongString {
			pool = append(pool, longString)
		}
	}
	return rapid.SampledFrom(pool).Draw(t, label+".str")
}

// Key draws a map key.
func Key(t *rapid.T, o Opts, label string) string {
	pool := Keys
	if o.HostileKeys {
		pool = append(append([]string{}, Keys...), HostileKeys...)
	}
	return rapid.SampledFrom(pool).Draw(t, label+".key")
}

// Value draws a JSON value of at most the given depth.
func Value(t *rapid.T, o Opts, depth int, label string) interface{} {
	if depth <= 0 {
		return Scalar(t, o, label)
	}
	kinds := []string{"scalar", "scalar", "scalar", "map"}
	if !o.NoArrays {
		kinds = append(kinds, "array")
	}
	switch rapid.SampledFrom(kinds).Draw(t, label+".shape") {
	case "map":
		return Map(t, o, depth-1, label)
	case "array":
		return Array(t, o, depth-1, label)
	}
	return Scalar(t, o, label)
}

// Map draws a map whose values have at most the given depth.
func Map(t *rapid.T, o Opts, depth int, label string) M {
	min := 0
	if o.NoEmpty {
		min = 1
	}
	n := rapid.IntRange(min, o.maxKeys()).Draw(t, label+".nkeys")
	m := M{}
	for i := 0; i < n; i++ {
		k := Key(t, o, fmt.Sprintf("%s.k%d", label, i))
		m[k] = Value(t, o, depth, fmt.Sprintf("%s.%s", label, k))
	}
	if o.NoEmpty && len(m) == 0 {
		m["a"] = "x"
	}
	return m
}

// Array draws an array (a set): distinct scalars and/or maps.
func Array(t *rapid.T, o Opts, depth int, label string) A {
	min := 0
	if o.NoEmpty {
		min = 1
	}
	n := rapid.IntRange(min, o.maxElems()).Draw(t, label+".nelems")
	a := A{}
	// Homogeneous scalar arrays are what the pattern index documents it
	// can sort; heterogeneous ones are produced too (a class switch).
	homog := rapid.SampledFrom([]string{"str", "str", "str", "num", "num", "mixed", "maps", "maps", "bool"}).Draw(t, label+".akind")
	if o.NoBools && homog == "bool" {
		homog = "str"
	}
	if o.NoNumbers && homog == "num" {
		homog = "str"
	}
	if (o.NoArrayMaps || depth <= 0) && homog == "maps" {
		homog = "str"
	}
	if o.NoMixed && homog == "mixed" {
		homog = "str"
	}
	for i := 0; i < n; i++ {
		var x interface{}
		l := fmt.Sprintf("%s[%d]", label, i)
		switch homog {
		case "str":
			x = String(t, o, l)
		case "num":
			x = rapid.SampledFrom(Numbers).Draw(t, l+".num")
		case "maps":
			x = Map(t, o, depth-1, l)
		case "bool":
			x = rapid.Bool().Draw(t, l+".bool")
		default:
			if depth > 0 && !o.NoArrayMaps && rapid.IntRange(0, 3).Draw(t, l+".m") == 0 {
				x = Map(t, o, depth-1, l)
			} else {
				x = Scalar(t, o, l)
			}
		}
		if isScalar(x) && containsScalar(a, x) {
			continue
		}
		a = append(a, x)
	}
	if o.NoEmpty && len(a) == 0 {
		a = append(a, "x")
	}
	return a
}

func isScalar(x interface{}) bool {
	switch x.(type) {
	case nil, bool, float64, string:
		return true
	}
	return false
}

func containsScalar(a A, x interface{}) bool {
	for _, y := range a {
		if isScalar(y) && y == x {
			return true
		}
	}
	return false
}

// ---------------------------------------------------------------------
// patterns

// PatOpts tunes pattern derivation.
type PatOpts struct {
	Opts
	// PropVar allows a property variable ({"?k": v} as the only key).
	PropVar bool
	// NoVars produces ground patterns.
	NoVars bool
	// Optional allows optional fields ({"k": "??o"}: matches whether or
	// not k is there, and binds ??o if it is).
	Optional bool
	// VarPool overrides Vars.
	VarPool []string
}

func (po PatOpts) vars() []string {
	if len(po.VarPool) > 0 {
		return po.VarPool
	}
	return Vars
}

// SortedKeys returns the keys of m in order (so that draws do not depend on
// map iteration order).
func SortedKeys(m M) []string {
	ks := make([]string, 0, len(m))
	for k := range m {
		ks = append(ks, k)
	}
	sort.Strings(ks)
	return ks
}

// Derive builds a pattern from a data map: keys and elements are dropped,
// subtrees replaced by variables (variables are re-used for equal and for
// unequal values), and optionally one constant is perturbed, so that most
// pairs match or nearly match.
func Derive(t *rapid.T, po PatOpts, data M, label string) M {
	p, _ := deriveValue(t, po, data, label, true).(M)
	if p == nil {
		p = M{}
	}
	return p
}

func deriveValue(t *rapid.T, po PatOpts, d interface{}, label string, top bool) interface{} {
	// Replace the subtree by a variable?
	if !top && !po.NoVars {
		if rapid.IntRange(0, 3).Draw(t, label+".var?") == 0 {
			return rapid.SampledFrom(po.vars()).Draw(t, label+".var")
		}
	}
	switch v := d.(type) {
	case M:
		keys := SortedKeys(v)
		if po.PropVar && !po.NoVars && len(keys) > 0 && rapid.IntRange(0, 7).Draw(t, label+".propvar?") == 0 {
			k := rapid.SampledFrom(keys).Draw(t, label+".pk")
			kv := rapid.SampledFrom(po.vars()).Draw(t, label+".pkv")
			return M{kv: deriveValue(t, po, v[k], label+".pv", false)}
		}
		p := M{}
		for _, k := range keys {
			if rapid.IntRange(0, 3).Draw(t, label+"."+k+".drop?") == 0 {
				continue
			}
			p[k] = deriveValue(t, po, v[k], label+"."+k, false)
		}
		// Occasionally an optional field: for a key that is there, or
		// for one that may not be.
		if po.Optional && !po.NoVars && rapid.IntRange(0, 5).Draw(t, label+".optional?") == 0 {
			var k string
			if len(keys) > 0 && rapid.Bool().Draw(t, label+".optional.present") {
				k = rapid.SampledFrom(keys).Draw(t, label+".optional.key")
			} else {
				k = Key(t, po.Opts, label+".optional.newkey")
			}
			p[k] = rapid.SampledFrom([]string{"??o", "??p"}).Draw(t, label+".optional.var")
		}
		// Occasionally demand a key that may not be there.
		if rapid.IntRange(0, 9).Draw(t, label+".extra?") == 0 {
			k := Key(t, po.Opts, label+".extra")
			if _, have := p[k]; !have {
				p[k] = Scalar(t, po.Opts, label+".extrav")
			}
		}
		return p
	case A:
		p := A{}
		usedVar := false
		for i, x := range v {
			l := fmt.Sprintf("%s[%d]", label, i)
			if rapid.IntRange(0, 2).Draw(t, l+".drop?") == 0 {
				continue
			}
			if isScalar(x) {
				if !usedVar && !po.NoVars && rapid.IntRange(0, 2).Draw(t, l+".var?") == 0 {
					usedVar = true
					p = append(p, rapid.SampledFrom(po.vars()).Draw(t, l+".var"))
					continue
				}
				if !containsScalar(p, x) {
					p = append(p, x)
				}
				continue
			}
			// map element: derive without turning the whole element
			// into a variable unless no variable used yet
			if m, ok := x.(M); ok {
				p = append(p, deriveMapNoTopVar(t, po, m, l))
			}
		}
		if !usedVar && !po.NoVars && rapid.IntRange(0, 5).Draw(t, label+".addvar?") == 0 {
			p = append(p, rapid.SampledFrom(po.vars()).Draw(t, label+".addvar"))
		}
		return p
	default:
		// scalar: keep, or perturb
		if rapid.IntRange(0, 11).Draw(t, label+".perturb?") == 0 {
			return Scalar(t, po.Opts, label+".perturbed")
		}
		return d
	}
}

func deriveMapNoTopVar(t *rapid.T, po PatOpts, m M, label string) M {
	p, _ := deriveValue(t, po, m, label, true).(M)
	if p == nil {
		p = M{}
	}
	return p
}

// Pattern draws an independent pattern map.
func Pattern(t *rapid.T, po PatOpts, depth int, label string) M {
	return patMap(t, po, depth, label)
}

func patMap(t *rapid.T, po PatOpts, depth int, label string) M {
	if po.PropVar && !po.NoVars && rapid.IntRange(0, 9).Draw(t, label+".propvar?") == 0 {
		kv := rapid.SampledFrom(po.vars()).Draw(t, label+".pkv")
		return M{kv: patValue(t, po, depth, label+".pv")}
	}
	min := 0
	if po.NoEmpty {
		min = 1
	}
	n := rapid.IntRange(min, po.maxKeys()).Draw(t, label+".nkeys")
	m := M{}
	for i := 0; i < n; i++ {
		k := Key(t, po.Opts, fmt.Sprintf("%s.k%d", label, i))
		if po.Optional && !po.NoVars && rapid.IntRange(0, 5).Draw(t, fmt.Sprintf("%s.k%d.optional?", label, i)) == 0 {
			m[k] = rapid.SampledFrom([]string{"??o", "??p"}).Draw(t, fmt.Sprintf("%s.k%d.optional", label, i))
			continue
		}
		m[k] = patValue(t, po, depth, label+"."+k)
	}
	if po.NoEmpty && len(m) == 0 {
		m["a"] = "x"
	}
	return m
}

func patValue(t *rapid.T, po PatOpts, depth int, label string) interface{} {
	if !po.NoVars && rapid.IntRange(0, 2).Draw(t, label+".var?") == 0 {
		return rapid.SampledFrom(po.vars()).Draw(t, label+".var")
	}
	if depth <= 0 {
		return Scalar(t, po.Opts, label)
	}
	kinds := []string{"scalar", "scalar", "map"}
	if !po.NoArrays {
		kinds = append(kinds, "array")
	}
	switch rapid.SampledFrom(kinds).Draw(t, label+".shape") {
	case "map":
		return patMap(t, po, depth-1, label)
	case "array":
		a := Array(t, po.Opts, depth-1, label)
		if !po.NoVars && rapid.IntRange(0, 1).Draw(t, label+".avar?") == 0 {
			a = append(a, rapid.SampledFrom(po.vars()).Draw(t, label+".avar"))
		}
		return a
	}
	return Scalar(t, po.Opts, label)
}

// Instantiate fills the variables of a pattern with drawn values and adds
// extra keys/elements, yielding data that the pattern matches (or nearly).
func Instantiate(t *rapid.T, o Opts, p M, label string) M {
	env := map[string]interface{}{}
	d, _ := instValue(t, o, p, env, label).(M)
	if d == nil {
		d = M{}
	}
	return d
}

func instValue(t *rapid.T, o Opts, p interface{}, env map[string]interface{}, label string) interface{} {
	switch v := p.(type) {
	case string:
		if strings.HasPrefix(v, "?") {
			if x, have := env[v]; have {
				// mostly consistent, sometimes not
				if rapid.IntRange(0, 7).Draw(t, label+".inconsistent?") != 0 {
					return x
				}
			}
			x := Value(t, o, 1, label+".fill")
			env[v] = x
			return x
		}
		return v
	case M:
		d := M{}
		for _, k := range SortedKeys(v) {
			dk := k
			if strings.HasPrefix(k, "?") {
				dk = Key(t, o, label+".pvk")
			}
			if s, ok := v[k].(string); ok && strings.HasPrefix(s, "??") && rapid.Bool().Draw(t, label+"."+k+".absent") {
				continue // an optional field: often not there
			}
			d[dk] = instValue(t, o, v[k], env, label+"."+k)
		}
		// extra keys
		n := rapid.IntRange(0, 2).Draw(t, label+".nextra")
		for i := 0; i < n; i++ {
			k := Key(t, o, fmt.Sprintf("%s.x%d", label, i))
			if _, have := d[k]; !have {
				d[k] = Value(t, o, 1, label+".xv")
			}
		}
		return d
	case A:
		d := A{}
		for i, x := range v {
			y := instValue(t, o, x, env, fmt.Sprintf("%s[%d]", label, i))
			if isScalar(y) && containsScalar(d, y) {
				continue
			}
			d = append(d, y)
		}
		n := rapid.IntRange(0, 2).Draw(t, label+".nextra")
		for i := 0; i < n; i++ {
			y := Scalar(t, o, fmt.Sprintf("%s.x%d", label, i))
			if !containsScalar(d, y) {
				d = append(d, y)
			}
		}
		return d
	default:
		if rapid.IntRange(0, 15).Draw(t, label+".perturb?") == 0 {
			return Scalar(t, o, label+".perturbed")
		}
		return p
	}
}

// Depth returns the nesting depth of a value.
func Depth(x interface{}) int {
	switch v := x.(type) {
	case M:
		d := 0
		for _, y := range v {
			if n := Depth(y); n > d {
				d = n
			}
		}
		return d + 1
	case A:
		d := 0
		for _, y := range v {
			if n := Depth(y); n > d {
				d = n
			}
		}
		return d + 1
	}
	return 0
}

// Has reports whether pred holds for some sub-value.
func Has(x interface{}, pred func(interface{}) bool) bool {
	if pred(x) {
		return true
	}
	switch v := x.(type) {
	case M:
		for _, y := range v {
			if Has(y, pred) {
				return true
			}
		}
	case A:
		for _, y := range v {
			if Has(y, pred) {
				return true
			}
		}
	}
	return false
}

// DeepCopy copies a JSON value.
func DeepCopy(x interface{}) interface{} {
	switch v := x.(type) {
	case M:
		n := make(M, len(v))
		for k, y := range v {
			n[k] = DeepCopy(y)
		}
		return n
	case A:
		n := make(A, len(v))
		for i, y := range v {
			n[i] = DeepCopy(y)
		}
		return n
	}
	return x
}

func CopyMap(m M) M {
	if m == nil {
		return nil
	}
	return DeepCopy(m).(M)
}
