//go:build faketime

package vlib

const faketimeBuild = true
