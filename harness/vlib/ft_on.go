//go:build faketime

package vlib

const faketimeBuild = true

// Faketime reports whether the binary runs on the virtual clock.
const Faketime = true
