//go:build !faketime

package vlib

const faketimeBuild = false

// Faketime reports whether the binary runs on the virtual clock.
const Faketime = false
