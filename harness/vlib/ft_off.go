//go:build !faketime

package vlib

const faketimeBuild = false
