// Package vlib is the glue between a property (genCase + runCase), the
// property-based testing library (rapid) and the runner (bin/vcheck).
//
// A property is
//
//	gen(*rapid.T) C      -- every random choice comes from rapid
//	run(C) *Outcome      -- pure function of the case and the code in /repo
//
// C is a JSON-serialisable value.  vlib journals every case before it is run
// (so that a fatal runtime error or a hang still leaves the failing input on
// disk), records coverage statistics for the evidence file, writes the
// failing case on every failing execution (the last one written is rapid's
// shrunk minimum) and offers a replay mode that bypasses rapid entirely.
package vlib

import (
	"crypto/sha256"
	"encoding/binary"
	"encoding/json"
	"flag"
	"fmt"
	"os"
	"runtime/debug"
	"sort"
	"strconv"
	"strings"
	"sync"
	"testing"
	"time"

	"pgregory.net/rapid"
)

var (
	flagReplay = flag.String("verif.replay", "", "replay this case file (JSON) instead of generating")
	flagOut    = flag.String("verif.out", "", "replay mode: write the outcome (JSON) here")
)

// Outcome is what runCase reports.
type Outcome struct {
	// Violation is empty if the property held on this case.
	Violation string `json:"violation,omitempty"`
	// Kind is a short, stable discrepancy kind (e.g. MISSED_RULE).
	Kind string `json:"kind,omitempty"`
	// Labels classify the case (counted in the evidence).
	Labels []string `json:"labels,omitempty"`
	// NonTrivial says the case is non-trivial by the property's stated rule.
	NonTrivial bool `json:"nontrivial"`
	// Known lists known findings that were observed on this case and
	// excluded (counted), see known_findings.json.
	Known []string `json:"known,omitempty"`
	// Discard says the case did not satisfy a precondition.
	Discard bool `json:"discard,omitempty"`
}

func (o *Outcome) Label(l string) { o.Labels = append(o.Labels, l) }

// Fail records a violation (first one wins).
func (o *Outcome) Fail(kind, format string, args ...interface{}) {
	if o.Violation != "" {
		return
	}
	o.Kind = kind
	o.Violation = fmt.Sprintf(format, args...)
}

func (o *Outcome) Failed() bool { return o.Violation != "" }

// ---------------------------------------------------------------------
// known findings

type KnownFinding struct {
	Property   string `json:"property"`
	Name       string `json:"name"`
	Status     string `json:"status"` // "known" | "fixed"
	Commit     string `json:"commit,omitempty"`
	Kind       string `json:"kind,omitempty"`
	Reproducer string `json:"reproducer,omitempty"`
	What       string `json:"what"`
}

var (
	knownOnce sync.Once
	knownSet  map[string]bool
)

// KnownActive reports whether the named finding is listed with status
// "known" in the committed known-findings file.  Suppression is switched off
// with VERIF_NOKNOWN=1 (used to confirm that a reproducer still fails).
func KnownActive(name string) bool {
	knownOnce.Do(func() {
		knownSet = map[string]bool{}
		if os.Getenv("VERIF_NOKNOWN") == "1" {
			return
		}
		path := os.Getenv("VERIF_KNOWN")
		if path == "" {
			return
		}
		bs, err := os.ReadFile(path)
		if err != nil {
			return
		}
		var doc struct {
			Findings []KnownFinding `json:"findings"`
		}
		if json.Unmarshal(bs, &doc) != nil {
			return
		}
		for _, f := range doc.Findings {
			if f.Status == "known" {
				knownSet[f.Name] = true
			}
		}
	})
	return knownSet[name]
}

// envPath returns the file named by an environment variable; "%p" in it
// stands for the process id (the native fuzzer runs a property in several
// worker processes, each with files of its own).
func envPath(name string) string {
	p := os.Getenv(name)
	if p == "" {
		return ""
	}
	return strings.ReplaceAll(p, "%p", strconv.Itoa(os.Getpid()))
}

// ---------------------------------------------------------------------
// statistics

type stats struct {
	sync.Mutex
	Property    string            `json:"property"`
	Evaluations int               `json:"evaluations"`
	Discards    int               `json:"discards"`
	NonTrivial  int               `json:"nontrivial"`
	Hashes      []uint64          `json:"hashes"`
	hashSet     map[uint64]bool   `json:"-"`
	Labels      map[string]int    `json:"labels"`
	Known       map[string]int    `json:"known"`
	Samples     []json.RawMessage `json:"samples"`
	Violations  int               `json:"violations"`
	Done        bool              `json:"done"`
	lastFlush   time.Time
}

const maxHashes = 400000

// flushEvery bounds what a killed process loses of its statistics.
var flushEvery = 2 * time.Second

var st = &stats{hashSet: map[uint64]bool{}, Labels: map[string]int{}, Known: map[string]int{}}

func (s *stats) record(js []byte, o *Outcome) {
	s.Lock()
	defer s.Unlock()
	if o.Discard {
		s.Discards++
		return
	}
	s.Evaluations++
	for _, l := range o.Labels {
		s.Labels[l]++
	}
	for _, k := range o.Known {
		s.Known[k]++
	}
	if o.Failed() {
		s.Violations++
	}
	if o.NonTrivial {
		s.NonTrivial++
		sum := sha256.Sum256(js)
		h := binary.LittleEndian.Uint64(sum[:8])
		if !s.hashSet[h] && len(s.hashSet) < maxHashes {
			s.hashSet[h] = true
			if len(s.Samples) < 4 && len(js) < 6000 {
				s.Samples = append(s.Samples, append(json.RawMessage(nil), js...))
			}
		}
	}
	if time.Since(s.lastFlush) > flushEvery {
		s.flushLocked(false)
	}
}

func (s *stats) flushLocked(done bool) {
	path := envPath("VERIF_STATS")
	if path == "" {
		return
	}
	s.Done = done
	s.Hashes = make([]uint64, 0, len(s.hashSet))
	for h := range s.hashSet {
		s.Hashes = append(s.Hashes, h)
	}
	sort.Slice(s.Hashes, func(i, j int) bool { return s.Hashes[i] < s.Hashes[j] })
	bs, err := json.Marshal(s)
	if err == nil {
		tmp := path + ".tmp"
		if os.WriteFile(tmp, bs, 0o644) == nil {
			os.Rename(tmp, path)
		}
	}
	s.lastFlush = time.Now()
}

func (s *stats) flush(done bool) {
	s.Lock()
	defer s.Unlock()
	s.flushLocked(done)
}

// ---------------------------------------------------------------------
// journal and failure files

var journalFile *os.File

func journal(js []byte) {
	path := envPath("VERIF_JOURNAL")
	if path == "" {
		return
	}
	if journalFile == nil {
		f, err := os.OpenFile(path, os.O_CREATE|os.O_RDWR|os.O_TRUNC, 0o644)
		if err != nil {
			return
		}
		journalFile = f
	}
	journalFile.Truncate(0)
	journalFile.WriteAt(js, 0)
}

type failRecord struct {
	Property string          `json:"property"`
	Kind     string          `json:"kind"`
	Message  string          `json:"message"`
	Case     json.RawMessage `json:"case"`
}

func writeFail(id string, js []byte, o *Outcome) {
	path := envPath("VERIF_FAIL")
	if path == "" {
		return
	}
	rec := failRecord{Property: id, Kind: o.Kind, Message: o.Violation, Case: js}
	bs, _ := json.MarshalIndent(rec, "", " ")
	tmp := path + ".tmp"
	if os.WriteFile(tmp, bs, 0o644) == nil {
		os.Rename(tmp, path)
	}
}

// ---------------------------------------------------------------------
// running

// CaseTimeout is the in-process watchdog for one case (real time).  When it
// trips the process writes the failing case with kind HANG and exits with
// status 3; the runner confirms by replay.
var CaseTimeout = 60 * time.Second

// guard runs f, converting a panic into a PANIC violation and a hang into a
// process exit.
func guard[C any](id string, js []byte, c C, run func(C) *Outcome) (o *Outcome) {
	done := make(chan *Outcome, 1)
	go func() {
		defer func() {
			if r := recover(); r != nil {
				oo := &Outcome{NonTrivial: true}
				oo.Fail("PANIC", "runCase panicked: %v\n%s", r, debug.Stack())
				done <- oo
			}
		}()
		done <- run(c)
	}()
	if faketimeBuild {
		// Virtual time: a real-time watchdog is meaningless (and a
		// deadlock is a fatal runtime error caught via the journal).
		return <-done
	}
	select {
	case o = <-done:
		return o
	case <-time.After(CaseTimeout):
		o = &Outcome{NonTrivial: true}
		o.Fail("HANG", "case did not finish within %v", CaseTimeout)
		writeFail(id, js, o)
		st.record(js, o)
		st.flush(false)
		os.Exit(3)
		return nil
	}
}

// Check is the entry point of a property's test function.
func Check[C any](t *testing.T, id string, gen func(*rapid.T) C, run func(C) *Outcome) {
	st.Property = id
	if *flagReplay != "" {
		replay(t, id, run)
		return
	}
	defer st.flush(true)
	rapid.Check(t, func(rt *rapid.T) {
		c := gen(rt)
		js, err := json.Marshal(c)
		if err != nil {
			rt.Fatalf("case not serialisable: %v", err)
		}
		journal(js)
		o := guard(id, js, c, run)
		st.record(js, o)
		if o.Discard {
			rt.Skip("discarded")
		}
		if o.Failed() {
			writeFail(id, js, o)
			rt.Fatalf("VIOLATION %s %s: %s", id, o.Kind, o.Violation)
		}
	})
}

// Fuzz drives the same property with Go's native coverage-guided fuzzer: the
// fuzz input is the bit stream that rapid's generators draw from
// (rapid.MakeFuzz), so every mutated input still decodes into a structured
// case, and the oracle inside run decides.  The runner gives each worker
// process its own journal / statistics / failure file ("%p").
func Fuzz[C any](f *testing.F, id string, gen func(*rapid.T) C, run func(C) *Outcome) {
	st.Property = id
	flushEvery = 500 * time.Millisecond // (fuzz workers are killed, not ended)
	f.Fuzz(rapid.MakeFuzz(func(rt *rapid.T) {
		c := gen(rt)
		js, err := json.Marshal(c)
		if err != nil {
			rt.Fatalf("case not serialisable: %v", err)
		}
		journal(js)
		o := guard(id, js, c, run)
		st.record(js, o)
		if o.Discard {
			rt.Skip("discarded")
		}
		if o.Failed() {
			writeFail(id, js, o)
			st.flush(false)
			rt.Fatalf("VIOLATION %s %s: %s", id, o.Kind, o.Violation)
		}
	}))
}

func replay[C any](t *testing.T, id string, run func(C) *Outcome) {
	bs, err := os.ReadFile(*flagReplay)
	if err != nil {
		t.Fatalf("replay: %v", err)
	}
	// Accept either a bare case or a fail record {"case": ...}.
	var rec failRecord
	raw := bs
	if json.Unmarshal(bs, &rec) == nil && len(rec.Case) > 0 {
		raw = rec.Case
	}
	var c C
	if err := json.Unmarshal(raw, &c); err != nil {
		t.Fatalf("replay: cannot decode case: %v", err)
	}
	journal(raw)
	o := guard(id, raw, c, run)
	if *flagOut != "" {
		out, _ := json.MarshalIndent(o, "", " ")
		os.WriteFile(*flagOut, out, 0o644)
	}
	if o.Failed() {
		writeFail(id, raw, o)
		t.Fatalf("VIOLATION %s %s: %s", id, o.Kind, o.Violation)
	}
}

// JSON is a helper: canonical JSON of any value (map keys sorted by
// encoding/json), for messages and comparisons.
func JSON(x interface{}) string {
	bs, err := json.Marshal(x)
	if err != nil {
		return fmt.Sprintf("<%v>", err)
	}
	return string(bs)
}
