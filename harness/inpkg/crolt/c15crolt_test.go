//go:build crolt_inpkg

package main

// C15 (persistent cron service) — rulio's glue to crolt (cron.CroltSimple)
// together with the real crolt of this package, in process.
//
// Locations get the cron state hooks with a CroltSimple as cron service.
// CroltSimple talks HTTP; the http.Client it obtains from core's client cache
// is replaced by one whose transport calls crolt's handlers directly (no
// network).  After every operation crolt's job table is compared with the
// scheduled rules that exist: a job per live scheduled rule (account =
// location, id = rule id) with that rule's current schedule and an event that
// names the rule, and no other job.  The firing loop is not started.

import (
	"encoding/json"
	"fmt"
	"net/http"
	"net/http/httptest"
	"os"
	"path/filepath"
	"sort"
	"strings"
	"testing"
	"time"

	"github.com/Comcast/rulio/core"
	rcron "github.com/Comcast/rulio/cron"
	"github.com/boltdb/bolt"
	"pgregory.net/rapid"

	"verif/harness/vlib"
)

type c15cOp struct {
	K     string `json:"k"`
	Loc   string `json:"loc,omitempty"`
	Id    string `json:"id,omitempty"`
	Sched int    `json:"sched,omitempty"`
}

type c15cCase struct {
	Linear bool     `json:"linear"`
	Ops    []c15cOp `json:"ops"`
}

var c15cScheds = []string{"0 0 3 * * * *", "*/5 * * * * * *", "+30m", "+1h", "!2100-01-01T00:00:00Z", "@yearly", "0 0 3 * * * *",
	// schedules that crolt refuses (index 7 on): the rule is then not added, and nothing changes
	"tomorrow", "0 0 0 1 1 * 2001"}

const c15cFirstBad = 7

func genC15Crolt(t *rapid.T) c15cCase {
	var c c15cCase
	c.Linear = rapid.Bool().Draw(t, "linear")
	n := rapid.IntRange(2, 14).Draw(t, "nops")
	for i := 0; i < n; i++ {
		l := fmt.Sprintf("op%d", i)
		x := c15cOp{
			K:   rapid.SampledFrom([]string{"sched", "sched", "sched", "sched", "rule", "fact", "rem", "rem", "clear", "delete", "reload"}).Draw(t, l+".kind"),
			Loc: rapid.SampledFrom([]string{"A", "B"}).Draw(t, l+".loc"),
			Id:  rapid.SampledFrom([]string{"s1", "s2"}).Draw(t, l+".id"),
		}
		if x.K == "sched" {
			x.Sched = rapid.IntRange(0, len(c15cScheds)-1).Draw(t, l+".sched")
		}
		if (x.K == "clear" || x.K == "delete") && rapid.Bool().Draw(t, l+".really") {
			x.K = "rem"
		}
		c.Ops = append(c.Ops, x)
	}
	return c
}

// c15cDirect is an http.RoundTripper that serves requests with a handler.
type c15cDirect struct{ h http.Handler }

func (d c15cDirect) RoundTrip(req *http.Request) (*http.Response, error) {
	rec := httptest.NewRecorder()
	d.h.ServeHTTP(rec, req)
	res := rec.Result()
	res.Request = req
	return res, nil
}

func c15cCtx() *core.Context {
	ctx := core.NewContext("c15crolt")
	ctx.Verbosity = core.NOTHING
	ctx.LogAccumulatorLevel = core.NOTHING
	return ctx
}

func runC15Crolt(c c15cCase) *vlib.Outcome {
	o := &vlib.Outcome{}
	base := "/dev/shm"
	if _, err := os.Stat(base); err != nil {
		base = os.TempDir()
	}
	dir, err := os.MkdirTemp(base, "vc15c-")
	if err != nil {
		o.Fail("TMP", "%v", err)
		return o
	}
	defer os.RemoveAll(dir)
	db, err := bolt.Open(filepath.Join(dir, "crolt.db"), 0600, nil)
	if err != nil {
		o.Fail("TMP", "%v", err)
		return o
	}
	defer db.Close()
	cr, err := NewCron(db, 2, 0, time.Hour)
	if err != nil {
		o.Fail("NEWCRON", "%v", err)
		return o
	}
	var seen []string
	note := func(h http.HandlerFunc) http.HandlerFunc {
		return func(w http.ResponseWriter, r *http.Request) {
			seen = append(seen, r.Method+" "+r.URL.String())
			h(w, r)
		}
	}
	mux := http.NewServeMux()
	mux.HandleFunc("/add", note(cr.AddHandler))
	mux.HandleFunc("/rem", note(cr.DeleteHandler))
	mux.HandleFunc("/get", note(cr.GetHandler))
	mux.HandleFunc("/", note(http.NotFound))
	client := &http.Client{Transport: c15cDirect{mux}}
	seed := func() { core.HTTPClientCache.Add(*core.NewHTTPClientSpec(), client) }
	seed()
	defer core.HTTPClientCache.Add(*core.NewHTTPClientSpec(), &http.Client{})

	cronner := &rcron.CroltSimple{CroltURL: "http://crolt.invalid/", RulesURL: "http://rules.invalid/api"}
	store, _ := core.NewMemStorage(c15cCtx())
	locs := map[string]*core.Location{}
	open := func(name string) error {
		ctx := c15cCtx()
		var st core.State
		var err error
		if c.Linear {
			st, err = core.NewLinearState(ctx, name, store)
		} else {
			st, err = core.NewIndexedState(ctx, name, store)
		}
		if err != nil {
			return err
		}
		if err = rcron.AddHooks(ctx, cronner, st); err != nil {
			return err
		}
		ctl := &core.Control{MaxFacts: 1000, Verbosity: core.NOTHING, NoTiming: true}
		loc, err := core.NewLocation(ctx, name, st, ctl)
		if err != nil {
			return err
		}
		ctx.SetLoc(loc)
		if err = st.Load(ctx); err != nil {
			return err
		}
		locs[name] = loc
		return nil
	}
	for _, ln := range []string{"A", "B"} {
		if err := open(ln); err != nil {
			o.Fail("OPEN", "%v", err)
			return o
		}
	}
	// model: loc/id -> schedule of the live scheduled rule
	model := map[string]string{}
	overwrote, removed := false, false
	check := func(when string) bool {
		var problems []string
		for _, ln := range []string{"A", "B"} {
			for _, id := range []string{"s1", "s2"} {
				want, live := model[ln+"/"+id]
				job, err := cr.Get(ln, id)
				switch {
				case err == NotFound && live:
					problems = append(problems, fmt.Sprintf("scheduled rule %s/%s (schedule %q) has no job", ln, id, want))
				case err == nil && !live:
					problems = append(problems, fmt.Sprintf("job %s/%s (schedule %q) is registered, but there is no such scheduled rule", ln, id, job.Expression))
				case err == nil && live:
					// crolt's own notation: no "+"/"!" needed, but the same schedule
					norm := func(s string) string { return strings.TrimLeft(strings.TrimSpace(s), "+!") }
					if norm(job.Expression) != norm(want) {
						problems = append(problems, fmt.Sprintf("job %s/%s has schedule %q, the rule has %q", ln, id, job.Expression, want))
					}
					var body struct {
						Location string                 `json:"location"`
						Event    map[string]interface{} `json:"event"`
					}
					if err := json.Unmarshal([]byte(job.RequestBody), &body); err != nil || body.Location != ln || body.Event["trigger!"] != id {
						problems = append(problems, fmt.Sprintf("job %s/%s would deliver %q", ln, id, job.RequestBody))
					}
				case err != nil && err != NotFound:
					problems = append(problems, fmt.Sprintf("crolt Get(%s,%s): %v", ln, id, err))
				}
			}
		}
		if len(problems) > 0 {
			sort.Strings(problems)
			o.Fail("CRON_REGISTRATION", "%s: %s; requests crolt saw: %v", when, strings.Join(problems, "; "), seen)
			return false
		}
		return true
	}
	for i, x := range c.Ops {
		seed()
		loc := locs[x.Loc]
		if loc == nil {
			o.Discard = true
			return o
		}
		when := fmt.Sprintf("[linear=%v] op %d %s", c.Linear, i, vlib.JSON(x))
		key := x.Loc + "/" + x.Id
		ctx := c15cCtx()
		_, wasSched := model[key]
		switch x.K {
		case "sched":
			if x.Sched < 0 || x.Sched >= len(c15cScheds) {
				o.Discard = true
				return o
			}
			rule := core.Map{"schedule": c15cScheds[x.Sched], "action": map[string]interface{}{"code": "1"}}
			if _, err := loc.AddRule(ctx, x.Id, rule); err != nil {
				if x.Sched >= c15cFirstBad {
					// refused: the rule that was there (if any) is
					// still there, and so is its job
					o.Label("schedule-refused-by-crolt")
					if wasSched {
						overwrote = true
					}
					break
				}
				o.Fail("ADDRULE_ERROR", "%s: %v; requests crolt saw: %v", when, err, seen)
				return o
			}
			if x.Sched >= c15cFirstBad {
				o.Fail("BAD_SCHEDULE_ACCEPTED", "%s: a rule with the schedule %q, which crolt cannot run, was accepted", when, c15cScheds[x.Sched])
				return o
			}
			if wasSched {
				overwrote = true
			}
			model[key] = c15cScheds[x.Sched]
		case "rule":
			rule := core.Map{"when": map[string]interface{}{"pattern": map[string]interface{}{"a": "?x"}}, "action": map[string]interface{}{"code": "1"}}
			if _, err := loc.AddRule(ctx, x.Id, rule); err != nil {
				o.Fail("ADDRULE_ERROR", "%s: %v", when, err)
				return o
			}
			if wasSched {
				overwrote = true
			}
			delete(model, key)
		case "fact":
			if _, err := loc.AddFact(ctx, x.Id, core.Map{"plain": "fact"}); err != nil {
				o.Fail("ADD_ERROR", "%s: %v", when, err)
				return o
			}
			if wasSched {
				overwrote = true
			}
			delete(model, key)
		case "rem":
			// (removing an id that is not there is reported as not found)
			if _, err := loc.RemRule(ctx, x.Id); err != nil && wasSched {
				o.Fail("REMRULE_ERROR", "%s: %v", when, err)
				return o
			}
			if wasSched {
				removed = true
			}
			delete(model, key)
		case "clear", "delete":
			var err error
			if x.K == "clear" {
				err = loc.Clear(ctx)
			} else {
				err = loc.Delete(ctx)
			}
			if err != nil {
				o.Fail("CLEAR_ERROR", "%s: %v", when, err)
				return o
			}
			for k := range model {
				if strings.HasPrefix(k, x.Loc+"/") {
					delete(model, k)
					removed = true
				}
			}
		case "reload":
			// a persistent cron service keeps its jobs; loading the
			// location changes nothing
			if err := open(x.Loc); err != nil {
				o.Fail("RELOAD", "%s: %v", when, err)
				return o
			}
		}
		if !check(when) {
			return o
		}
	}
	if overwrote || removed {
		o.NonTrivial = true
	}
	if overwrote {
		o.Label("scheduled-overwritten")
	}
	if removed {
		o.Label("scheduled-removed")
	}
	return o
}

func TestC15Crolt(t *testing.T) {
	vlib.Check(t, "C15", genC15Crolt, runC15Crolt)
}
