//go:build crolt_inpkg

package main

// C16 (Bolt-backed cron service, package main of /repo/crolt) — in-package
// check injected with -overlay; runs on the virtual clock.
//
// Generated Add/Delete/DeleteAccount/work/sleep/reopen sequences.  The
// harness calls DB.Update(c.work(part)) itself, so it owns when the firing
// loop runs.  Jobs have an empty URL: the HTTP request fails at once without
// touching the network, and a firing is observed as the job's time-index id
// changing during a work pass.

import (
	"bytes"
	"encoding/json"
	"fmt"
	"io"
	"log"
	"net/http"
	"os"
	"path/filepath"
	"sort"
	"strconv"
	"strings"
	"sync"
	"testing"
	"time"

	"github.com/boltdb/bolt"
	"github.com/gorhill/cronexpr"
	"pgregory.net/rapid"

	"verif/harness/vlib"
)

type croltOp struct {
	K       string `json:"k"`
	Account string `json:"account,omitempty"`
	Id      string `json:"id,omitempty"`
	Sched   string `json:"sched,omitempty"`
	N       int64  `json:"n,omitempty"`
	// Slow (add): the job's HTTP request takes 200 ms (virtual) instead of
	// failing at once, so that other requests can arrive while the firing
	// loop is inside the job.
	Slow bool `json:"slow,omitempty"`
}

// croltSlowRT answers every request after 200 ms of virtual time (no network)
// and counts the requests per URL.
type croltSlowRT struct{}

var (
	croltHitsMu sync.Mutex
	croltHits   = map[string]int{}
)

func (croltSlowRT) RoundTrip(req *http.Request) (*http.Response, error) {
	croltHitsMu.Lock()
	croltHits[req.URL.String()]++
	croltHitsMu.Unlock()
	time.Sleep(200 * time.Millisecond)
	return &http.Response{StatusCode: 200, Status: "200 OK", Proto: "HTTP/1.1", ProtoMajor: 1, ProtoMinor: 1,
		Header: http.Header{}, Body: io.NopCloser(strings.NewReader("ok")), Request: req}, nil
}

type croltCase struct {
	Offset int64     `json:"offset"`
	Ops    []croltOp `json:"ops"`
}

const croltTTL = 2 * time.Second

func genCrolt(t *rapid.T) croltCase {
	var c croltCase
	c.Offset = rapid.SampledFrom([]int64{0, 0, 100e6, 123456789, 500e6}).Draw(t, "offset")
	n := rapid.IntRange(2, 16).Draw(t, "nops")
	for i := 0; i < n; i++ {
		l := fmt.Sprintf("op%d", i)
		acct := rapid.SampledFrom([]string{"a1", "a2", "b7"}).Draw(t, l+".account")
		id := rapid.SampledFrom([]string{"j1", "j2", "j3"}).Draw(t, l+".id")
		switch rapid.SampledFrom([]string{"add", "add", "add", "add", "delete", "delete", "deleteAccount", "work", "work", "work", "sleep", "sleep", "sleep", "reopen", "deleteDuringWork", "deleteDuringWork"}).Draw(t, l+".kind") {
		case "deleteDuringWork":
			// a Delete that arrives while the firing loop is at work
			c.Ops = append(c.Ops, croltOp{K: "deleteDuringWork", Account: acct, Id: id, N: rapid.SampledFrom([]int64{1e6, 50e6, 150e6, 250e6}).Draw(t, l+".after")})
		case "add":
			s := rapid.SampledFrom([]string{"300ms", "500ms", "1s", "1500ms", "2500ms", "0s", "150ms", "* * * * * * *", "*/2 * * * * * *", "0 0 0 1 1 * 2001", "@700ms", "@1500ms", "@0s",
				// absolute due times written with a zone offset (hours after the second @)
				"@700ms@-7", "@1500ms@5", "@2500ms@-11", "@300ms@13"}).Draw(t, l+".sched")
			c.Ops = append(c.Ops, croltOp{K: "add", Account: acct, Id: id, Sched: s, Slow: rapid.IntRange(0, 2).Draw(t, l+".slow") == 0})
		case "delete":
			c.Ops = append(c.Ops, croltOp{K: "delete", Account: acct, Id: id})
		case "deleteAccount":
			c.Ops = append(c.Ops, croltOp{K: "deleteAccount", Account: acct})
		case "work":
			c.Ops = append(c.Ops, croltOp{K: "work"})
		case "sleep":
			c.Ops = append(c.Ops, croltOp{K: "sleep", N: rapid.SampledFrom([]int64{1e6, 100e6, 250e6, 500e6, 1e9, 2e9}).Draw(t, l+".ns")})
		case "reopen":
			c.Ops = append(c.Ops, croltOp{K: "reopen"})
		}
	}
	return c
}

type croltModelJob struct {
	never   bool   // a cron expression without a future occurrence
	url     string // of slow jobs
	once    bool
	fires   int
	addedAt time.Time
	absDue  time.Time // of a job scheduled for an absolute time
}

func croltSnapshot(c *Cron) (jobs map[string]Job, raw map[string]map[string]string, err error) {
	jobs = map[string]Job{}
	raw = map[string]map[string]string{}
	err = c.DB.View(func(tx *bolt.Tx) error {
		return c.DoBuckets(func(bucket string) error {
			raw[bucket] = map[string]string{}
			b := tx.Bucket([]byte(bucket))
			if b == nil {
				return fmt.Errorf("bucket %s missing", bucket)
			}
			return b.ForEach(func(k, v []byte) error {
				raw[bucket][string(k)] = string(v)
				if strings.HasPrefix(bucket, "jobs") {
					var j Job
					if err := json.Unmarshal(v, &j); err != nil {
						return err
					}
					jobs[string(k)] = j
				}
				return nil
			})
		})
	})
	return
}

// croltConsistent checks that the job table and the time index agree.
func croltConsistent(c *Cron, o *vlib.Outcome, when string) {
	_, raw, err := croltSnapshot(c)
	if err != nil {
		o.Fail("CROLT_DB_ERROR", "%s: %v", when, err)
		return
	}
	for p := 0; p < c.Partitions; p++ {
		jobs, tim := raw["jobs"+strconv.Itoa(p)], raw["time"+strconv.Itoa(p)]
		for aid, js := range jobs {
			var j Job
			json.Unmarshal([]byte(js), &j)
			tjs, have := tim[j.TId]
			if !have {
				o.Fail("CROLT_INDEX_MISSING", "%s: job %s (partition %d) has time id %q which is not in the time index %v", when, aid, p, j.TId, keysOfMap(tim))
			} else if tjs != js {
				o.Fail("CROLT_INDEX_DIFFERS", "%s: job %s: job table has %s but the time index has %s", when, aid, js, tjs)
			}
		}
		for tid, js := range tim {
			var j Job
			json.Unmarshal([]byte(js), &j)
			aid := j.Account + Separator + j.Id
			jjs, have := jobs[aid]
			if !have {
				o.Fail("CROLT_ORPHAN_TIME_ENTRY", "%s: time index entry %q (partition %d) has no job in the job table %v", when, tid, p, keysOfMap(jobs))
				continue
			}
			var jj Job
			json.Unmarshal([]byte(jjs), &jj)
			if jj.TId != tid {
				o.Fail("CROLT_STALE_TIME_ENTRY", "%s: time index entry %q is not the current entry %q of job %s", when, tid, jj.TId, aid)
			}
		}
	}
}

func keysOfMap(m map[string]string) []string {
	ks := make([]string, 0, len(m))
	for k := range m {
		ks = append(ks, k)
	}
	sort.Strings(ks)
	return ks
}

func dueOf(j Job) (time.Time, error) {
	i := strings.Index(j.TId, ",")
	if i < 0 {
		return time.Time{}, fmt.Errorf("bad tid %q", j.TId)
	}
	return time.Parse(time.RFC3339Nano, j.TId[:i]) // accepts fixed-width fractions too
}

func runCrolt(c croltCase) *vlib.Outcome {
	o := &vlib.Outcome{}
	if !vlib.Faketime {
		o.Fail("NEEDS_FAKETIME", "this check must be built with -tags faketime")
		return o
	}
	log.SetOutput(io.Discard)
	http.DefaultClient.Transport = croltSlowRT{}
	croltHitsMu.Lock()
	croltHits = map[string]int{}
	croltHitsMu.Unlock()
	// start on a 10 s boundary plus the offset
	n0 := time.Now()
	time.Sleep(n0.Truncate(10*time.Second).Add(10*time.Second).Sub(n0) + time.Duration(c.Offset%int64(time.Second)))

	base := "/dev/shm"
	if _, err := os.Stat(base); err != nil {
		base = os.TempDir()
	}
	dir, err := os.MkdirTemp(base, "vcrolt-")
	if err != nil {
		o.Fail("TMP", "%v", err)
		return o
	}
	defer os.RemoveAll(dir)
	file := filepath.Join(dir, "crolt.db")
	open := func() (*Cron, error) {
		db, err := bolt.Open(file, 0600, nil)
		if err != nil {
			return nil, err
		}
		return NewCron(db, 4, 0, croltTTL)
	}
	cr, err := open()
	if err != nil {
		o.Fail("OPEN", "%v", err)
		return o
	}
	defer func() { cr.DB.Close() }()

	model := map[string]*croltModelJob{}
	t0 := time.Now()
	rel := func(t time.Time) string { return "+" + t.Sub(t0).String() }
	deletedBeforeDue, reopenPending := false, false

	// one pass of the firing loop over every partition
	var concurrentDelete *croltOp // set by deleteDuringWork for one pass
	workPass := func(when string) (fired int) {
		before, _, err := croltSnapshot(cr)
		if err != nil {
			o.Fail("CROLT_DB_ERROR", "%s: %v", when, err)
			return
		}
		T := time.Now()
		passDone := make(chan error, 1)
		go func() {
			for p := 0; p < cr.Partitions; p++ {
				if err := cr.DB.Update(cr.work(strconv.Itoa(p))); err != nil {
					passDone <- fmt.Errorf("work(%d) failed: %v", p, err)
					return
				}
			}
			passDone <- nil
		}()
		skip := ""
		if x := concurrentDelete; x != nil {
			skip = x.Account + Separator + x.Id
			time.Sleep(time.Duration(x.N))
			if err := cr.Delete(x.Account, x.Id); err != nil {
				o.Fail("CROLT_DELETE_ERROR", "%s: Delete during a work pass failed: %v", when, err)
			}
		}
		if err := <-passDone; err != nil {
			o.Fail("CROLT_WORK_ERROR", "%s: %v", when, err)
			return
		}
		// (a pass takes time when jobs are slow: a firing happened at some
		// instant between the start and the end of the pass)
		T = time.Now()
		after, _, err := croltSnapshot(cr)
		if err != nil {
			o.Fail("CROLT_DB_ERROR", "%s: %v", when, err)
			return
		}
		for aid, jb := range before {
			if aid == skip {
				continue // deleted while the pass was running
			}
			ja, still := after[aid]
			due, derr := dueOf(jb)
			if derr != nil {
				o.Fail("CROLT_BAD_TID", "%s: %v", when, derr)
				continue
			}
			if !still {
				// evicted
				m := model[aid]
				if !jb.Evict {
					o.Fail("CROLT_JOB_VANISHED", "%s: job %s disappeared during a work pass without being an expired one-shot", when, aid)
				} else if due.After(T) {
					o.Fail("CROLT_EVICTED_EARLY", "%s: job %s evicted at %s before its eviction time %s", when, aid, rel(T), rel(due))
				}
				if m != nil {
					delete(model, aid)
				}
				fired++
				continue
			}
			if ja.TId == jb.TId {
				continue
			}
			// the job fired in this pass
			fired++
			if due.After(T) {
				o.Fail("CROLT_FIRED_EARLY", "%s: job %s fired at %s, before its due time %s (time index key %q)", when, aid, rel(T), rel(due), jb.TId)
			}
			m := model[aid]
			if m == nil {
				o.Fail("CROLT_UNKNOWN_JOB_FIRED", "%s: job %s fired but is not a live job", when, aid)
				continue
			}
			m.fires++
			if m.once && m.fires == 1 && !m.absDue.IsZero() && m.absDue.After(T) {
				// (the instant the caller named, not the one in the time index)
				o.Fail("CROLT_FIRED_EARLY", "%s: job %s fired at %s, before the time it was scheduled for, %s (time index key %q)", when, aid, rel(T), rel(m.absDue), jb.TId)
			}
			if m.never {
				o.Fail("CROLT_FIRED_WITHOUT_OCCURRENCE", "%s: job %s has a schedule without a future occurrence but fired (time index key %q)", when, aid, jb.TId)
			}
			if m.once {
				if m.fires > 1 {
					o.Fail("CROLT_ONESHOT_TWICE", "%s: one-shot job %s fired %d times", when, aid, m.fires)
				}
				if !ja.Evict {
					o.Fail("CROLT_ONESHOT_NOT_MARKED", "%s: one-shot job %s fired but is not marked for eviction", when, aid)
				}
			}
		}
		for aid := range after {
			if _, had := before[aid]; !had {
				o.Fail("CROLT_JOB_APPEARED", "%s: job %s appeared during a work pass", when, aid)
			}
		}
		return
	}

	for i, x := range c.Ops {
		now := time.Now()
		when := fmt.Sprintf("op %d %s at %s", i, vlib.JSON(x), rel(now))
		aid := x.Account + Separator + x.Id
		switch x.K {
		case "add":
			j := &Job{Account: x.Account, Id: x.Id, Expression: x.Sched}
			absolute := false
			var absDue time.Time
			if strings.HasPrefix(x.Sched, "@") {
				// an absolute due time (RFC3339), that far from now
				spec, zone := x.Sched[1:], time.UTC
				if k := strings.Index(spec, "@"); k > 0 {
					if h, herr := strconv.Atoi(spec[k+1:]); herr == nil && h >= -14 && h <= 14 {
						zone = time.FixedZone("", h*3600)
						o.Label("absolute-time-with-zone-offset")
					}
					spec = spec[:k]
				}
				if d, derr := time.ParseDuration(spec); derr == nil {
					j.Expression = now.Add(d).In(zone).Format(time.RFC3339Nano)
					absolute = true
					absDue = now.Add(d)
				}
			}
			never := false
			if _, derr := time.ParseDuration(x.Sched); derr != nil {
				if e, perr := cronexpr.Parse(x.Sched); perr == nil {
					never = e.Next(now).IsZero()
				}
			}
			if x.Slow || never {
				// (a firing of a job without future occurrence does not
				// show in the time index: count its requests)
				j.URL = fmt.Sprintf("http://slow.test/%d/%s/%s", i, x.Account, x.Id)
				j.Method = "GET"
			}
			err := cr.Add(j)
			if never && err != nil && err != Exists {
				// refusing a schedule without a future occurrence is fine
				o.Label("never-occurring-schedule-refused")
				break
			}
			if _, exists := model[aid]; exists {
				if err != Exists {
					o.Fail("CROLT_DUPLICATE_ADD", "%s: adding an existing job returned %v", when, err)
				}
				break
			}
			if err != nil {
				o.Fail("CROLT_ADD_ERROR", "%s: Add failed: %v", when, err)
				break
			}
			_, derr := time.ParseDuration(x.Sched)
			model[aid] = &croltModelJob{once: derr == nil || absolute, addedAt: now, never: never, url: j.URL, absDue: absDue}
		case "delete":
			if err := cr.Delete(x.Account, x.Id); err != nil {
				o.Fail("CROLT_DELETE_ERROR", "%s: Delete failed: %v", when, err)
			}
			if m := model[aid]; m != nil && m.fires == 0 && len(model) > 1 {
				deletedBeforeDue = true
			}
			delete(model, aid)
		case "deleteAccount":
			if err := cr.DeleteAccount(x.Account); err != nil {
				o.Fail("CROLT_DELETE_ERROR", "%s: DeleteAccount failed: %v", when, err)
			}
			for k := range model {
				if strings.HasPrefix(k, x.Account+Separator) {
					delete(model, k)
				}
			}
		case "deleteDuringWork":
			xx := x
			concurrentDelete = &xx
			workPass(when)
			concurrentDelete = nil
			delete(model, aid)
			o.Label("delete-during-work-pass")
		case "work":
			workPass(when)
		case "sleep":
			time.Sleep(time.Duration(x.N))
		case "reopen":
			if len(model) >= 2 {
				reopenPending = true
			}
			cr.DB.Close()
			cr, err = open()
			if err != nil {
				o.Fail("REOPEN", "%s: %v", when, err)
				return o
			}
		}
		if o.Failed() {
			return o
		}
		croltConsistent(cr, o, when)
		for aid, m := range model {
			if m.never {
				croltHitsMu.Lock()
				n := croltHits[m.url]
				croltHitsMu.Unlock()
				if n > 0 {
					o.Fail("CROLT_FIRED_WITHOUT_OCCURRENCE", "%s: job %s has a schedule without a future occurrence but its request was made %d times", when, aid, n)
				}
			}
		}
		// the job table holds exactly the live jobs
		jobs, _, _ := croltSnapshot(cr)
		for aid := range model {
			if _, have := jobs[aid]; !have {
				o.Fail("CROLT_JOB_LOST", "%s: live job %s is not in the job table", when, aid)
			}
		}
		for aid := range jobs {
			if _, have := model[aid]; !have {
				o.Fail("CROLT_JOB_LEFTOVER", "%s: job table holds %s which was deleted or evicted", when, aid)
			}
		}
		if o.Failed() {
			return o
		}
	}
	// drain: every one-shot that is due fires exactly once; then, after
	// the TTL, it is evicted
	time.Sleep(3 * time.Second)
	for pass := 0; pass < 30; pass++ {
		if workPass("drain") == 0 || o.Failed() {
			break
		}
	}
	for aid, m := range model {
		if m.once && m.fires != 1 {
			o.Fail("CROLT_ONESHOT_MISSED", "one-shot job %s (added %s) fired %d times by %s", aid, rel(m.addedAt), m.fires, rel(time.Now()))
		}
	}
	if !o.Failed() {
		time.Sleep(croltTTL + time.Second)
		for pass := 0; pass < 30; pass++ {
			if workPass("evict") == 0 || o.Failed() {
				break
			}
		}
		jobs, _, _ := croltSnapshot(cr)
		for aid, j := range jobs {
			if m := model[aid]; m != nil && m.once {
				o.Fail("CROLT_NOT_EVICTED", "one-shot job %s is still in the job table %v after its TTL (evict=%v)", aid, croltTTL, j.Evict)
			}
		}
		croltConsistent(cr, o, "at end")
	}
	if deletedBeforeDue || reopenPending {
		o.NonTrivial = true
	}
	_ = bytes.Compare
	return o
}

func TestC16Crolt(t *testing.T) {
	vlib.Check(t, "C16", genCrolt, runCrolt)
}
